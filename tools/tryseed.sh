#!/bin/bash
# tryseed.sh <patch> <prop>...  : apply a seeded change to /repo, run the given checks, undo the change (development helper)
P="$(readlink -f "$1")"; shift
cd /verif
git -C /repo apply "$P" || { echo "patch does not apply"; exit 2; }
for p in "$@"; do
  out=$(./check $p 2>&1); rc=$?
  echo "== $p rc=$rc $(echo "$out" | grep '^property' | cut -c1-160)"
  echo "$out" | grep "VIOLATION\|BOUNDED" | cut -c1-400 | head -6
done
git -C /repo apply -R "$P" && echo "(reverted)"
git -C /repo status --short | grep -v '^??' | head -3
