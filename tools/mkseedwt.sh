#!/bin/bash
# mkseedwt.sh <prop> <tag> [prompt template, default tools/seed_prompt.txt] : scratch worktree /tmp/seed-<tag> of /repo HEAD without the contract files, with the property
# text and the seeding instructions under .seed/ (what an independent seeding sub-agent gets to see)
P="$1"; T="$2"; TPL="${3:-/verif/tools/seed_prompt.txt}"; D=/tmp/seed-$T
git -C /repo worktree add --detach "$D" HEAD >/dev/null 2>&1 || { echo "cannot create $D"; exit 2; }
for f in $(git -C "$D" ls-files | grep '_verif\.go$'); do git -C "$D" update-index --skip-worktree "$f"; rm -f "$D/$f"; done
mkdir -p "$D/.seed"
python3 - "$P" "$D" "$TPL" <<'PY'
import json,sys
p,d=sys.argv[1],sys.argv[2]
for l in open('/verif/properties.jsonl'):
    o=json.loads(l)
    if o.get('id')==p:
        json.dump(o,open(d+'/.seed/property.json','w'),indent=1)
open(d+'/.seed/INSTRUCTIONS.md','w').write(open(sys.argv[3]).read().replace('__DIR__',d))
PY
( cd "$D" && git status --short | grep -v '^ D' | head -3 )
echo "$D ready"
