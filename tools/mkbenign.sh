#!/bin/bash
# mkbenign.sh NAME "PROP PROP.." FILE SED-SCRIPT : a property-preserving edit of /repo (made with sed on FILE) that no check may flag
set -e
NAME="$1"; PROPS="$2"; FILE="$3"; SCRIPT="$4"
W=$(mktemp -d /tmp/benign.XXXXXX)
mkdir -p "$W/a/$(dirname "$FILE")" "$W/b/$(dirname "$FILE")"
cp "/repo/$FILE" "$W/a/$FILE"; sed -E "$SCRIPT" "/repo/$FILE" > "$W/b/$FILE"
( cd "$W" && diff -u "a/$FILE" "b/$FILE" > "$OLDPWD/selftest/benign/$NAME.patch" ) || true
[ -s "selftest/benign/$NAME.patch" ] || { echo "$NAME: empty patch"; rm -rf "$W"; exit 1; }
: > "selftest/benign/$NAME.expect"; for p in $PROPS; do echo "property: $p" >> "selftest/benign/$NAME.expect"; done
rm -rf "$W"; echo "wrote $NAME"
