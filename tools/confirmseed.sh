#!/bin/bash
# confirmseed.sh <seeded dir> <package dir> : in a scratch worktree of /repo, run the seed's demonstration with and without its patch
D="$(readlink -f "$1")"; PKG="$2"
export PATH=/opt/veriftools/go1.26.8/bin:$PATH GOTOOLCHAIN=local GOFLAGS=-mod=mod GOPROXY=off GOSUMDB=off
W=$(mktemp -d /tmp/confirm.XXXXXX)
git -C /repo worktree add --detach "$W/wt" HEAD >/dev/null 2>&1
cp "$D/zz_demo_test.go" "$W/wt/$PKG/zz_demo_test.go"
( cd "$W/wt" && go test -vet=off -count=1 -run TestDemo ./$PKG/ >"$W/without.txt" 2>&1; echo "without patch: rc=$?" )
( cd "$W/wt" && git apply "$D/patch.diff" && go test -vet=off -count=1 -run TestDemo ./$PKG/ >"$W/with.txt" 2>&1; echo "with patch: rc=$?"; grep -m2 -- "--- FAIL\|FAIL" "$W/with.txt" | head -2 )
git -C /repo worktree remove --force "$W/wt"; rm -rf "$W"
