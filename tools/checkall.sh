#!/bin/bash
# Run every claimed check on the unchanged tree and summarise (development helper).
cd "$(dirname "$0")/.."
for p in $(python3 -c "import json;print(' '.join(c['property_id'] for c in json.load(open('MANIFEST.json'))['checks']))") "$@"; do
  out=$(./check $p 2>&1); rc=$?
  echo "$p rc=$rc $(echo "$out" | grep '^property' | cut -c1-200)"
  echo "$out" | grep "VIOLATION" | cut -c1-260 | head -5
done
