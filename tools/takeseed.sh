#!/bin/bash
# takeseed.sh <tag> <seed name> <package dir> <prop>... : collect a sub-agent's seed from /tmp/seed-<tag>/.seed into
# seeded/<name>, remove the agent's worktree, confirm the demonstration both ways, run the given checks with the change applied
T="$1"; N="$2"; PKG="$3"; shift 3
cd /verif
mkdir -p seeded/$N && cp /tmp/seed-$T/.seed/patch.diff /tmp/seed-$T/.seed/zz_demo_test.go /tmp/seed-$T/.seed/notes.txt seeded/$N/ || exit 2
git -C /repo worktree remove --force /tmp/seed-$T
tools/confirmseed.sh seeded/$N $PKG
tools/tryseed.sh seeded/$N/patch.diff "$@" 2>&1 | cut -c1-420
