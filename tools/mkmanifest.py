#!/usr/bin/env python3
"""Regenerates /verif/MANIFEST.json from the table below (kept by hand)."""
import json, subprocess, os
HERE = os.path.dirname(os.path.dirname(os.path.abspath(__file__)))
props = [json.loads(l)['id'] for l in open(os.path.join(HERE, 'properties.jsonl'))]

TECH = "contract-based deductive verification: weakest-precondition style symbolic execution of go/ssa (NaiveForm) of the real /repo code against //@ contracts; obligations discharged by cvc5 / z3"

checks = {
 "C17": dict(
   category="proof",
   text="Every function of package label that parses, prints or matches labels and patterns carries a functional contract (result = spec function of the unbounded input strings, error iff the documented grammar rejects); the sentences of the property (label round trip, //a/b = //a/b:b, :x relative to the current package, //p/... at component boundaries, //p:all, exact names) are ghost lemma functions verified against those contracts only. All obligations are discharged for all strings (no length or alphabet bound).",
   design_ref="DESIGN.md section 7 (C17)",
   note="Assumed: contracts of strings.HasPrefix/Index/LastIndex/Split (specs/10_externals.spec), SMT-LIB strings are sequences of code points (Go strings are bytes; proofs hold for the larger domain), UTF-8 decoding of range-over-string abstracted by three axioms, mathematical integers. Pattern print/re-parse preservation is attempted but not claimed (see DESIGN section 13)."),
 "C09": dict(
   category="other",
   text="Proof that the byte stream hashed into the cache key equals a layout spec function of the abstract target state only (label, command, multiset of inputs, multiset of declared outputs incl. bin output, multiset of dependency digests, fingerprint map, platform unless multiplatform-cache; file contents in sorted path order), for every slice order and every map iteration order (the map-range loop is verified for an arbitrary pick of the next key). Hence no dependence on declaration/glob/map order, workspace location, time, host or scheduling. The injectivity half (no ambiguous concatenation) is decided per component boundary by lemmas over the layout spec; on the current tree four boundaries are refuted, each refutation is replayed on the real code under xxh3 and sha256 and recorded as a known finding, so the level is 'other', not 'proof'.",
   design_ref="DESIGN.md section 7 (C09), section 14",
   note="Assumed: hash functions uninterpreted (collision-freedom is the stated assumption for key equality => stream equality); Bag-theory axioms and sort/Join contracts in specs/30_hashing.spec; ghost stream semantics of the two Hasher implementations; file system unchanged while hashing (A-fs); protobuf marshalling in getOutputHash is not under contract yet."),
 "C16": dict(
   category="other",
   text="Scope claimed: 'never a panic' for the repository's own code on the BUILD-loading path (packages loading, output, model), for all inputs: a zero-annotation sweep generates a bounds / nil-map / type-assertion / division / explicit-panic obligation for every such instruction and the ones listed in the baseline are discharged; the Makefile and script annotation parsers carry contracts (line slices grow in lock-step; handleTarget's index preconditions proved at the call sites). One defect found this way was repaired (fix: commit 7f5b5ee). Cross-format agreement, determinism across worker counts and hangs are not decided by this check (no contract within reach expresses the semantics of the third-party parsers).",
   design_ref="DESIGN.md section 7 (C16), section 14",
   note="Third-party parser calls are havoc (arbitrary results of the right Go type); capacity of slices is not modelled (slice expressions are checked against len, which is stronger than Go requires); nil-pointer dereference is not among the generated obligations."),
}

not_applicable = {
 "C18": "interrupt delivery at arbitrary times, bounded exit latency and teardown of child shells are temporal process-level behaviour; no pre/postcondition or invariant of a function expresses them (DESIGN.md section 8)",
 "C19": "an asymptotic cost bound is not a functional postcondition; a ghost-cost contract needs amortised reasoning over set cardinalities that no installed solver decides, and a failed cost proof yields nothing to replay (DESIGN.md section 8)",
}
PENDING = "engine stage for this property not built yet (DESIGN.md section 10); it will be claimed once its obligations discharge on the unchanged tree"

commits = subprocess.run(["git", "-C", "/repo", "log", "--format=%H %s"], capture_output=True, text=True).stdout.splitlines()
hook_commits = [c.split()[0] for c in commits if c.split(' ', 1)[1].startswith('verif:')]

m = {
 "version": 1,
 "setup_cmd": "./setup.sh",
 "hooks": {
   "guard": "verif",
   "enable": "go build tag `verif`: contract files internal/*/zz_contracts_verif.go (//@ contract comments and ghost lemma functions) are compiled only with -tags=verif; govc loads /repo with that tag",
   "baseline_off_cmd": "cd /repo && PATH=/opt/veriftools/go1.26.8/bin:$PATH GOTOOLCHAIN=local GOFLAGS=-mod=mod GOPROXY=off go test -vet=off -count=1 ./...",
   "source_commits": hook_commits,
   "add_only": True,
 },
 "engines": [{"name": "govc", "path": "engine", "serves_properties": sorted(checks), "kind_free_text": "deductive verifier for Go written for this task (Go, x/tools v0.50.0 vendored): loads /repo with go/packages, builds go/ssa in NaiveForm, symbolically executes each function under contract path by path (calls replaced by callee contracts, loops by invariants, heap as per-field arrays), emits named SMT-LIB obligations and races cvc5 1.0.3 / z3 5.1.0 / z3 4.8.12 on each"}],
 "checks": [],
 "not_applicable": [],
 "notes": "See DESIGN.md. ./check selftest runs the must-fail mutant corpus (selftest/mutants).",
}
for pid in props:
    if pid in checks:
        c = checks[pid]
        m["checks"].append({
          "property_id": pid,
          "quick_cmd": f"./check {pid} --tier quick",
          "thorough_cmd": f"./check {pid} --tier thorough",
          "evidence_file": f"evidence/{pid}.json",
          "replay_cmd_template": f"./check {pid} --replay {{path}}",
          "engine": "govc",
          "level_claimed": {"category": c["category"], "text": c["text"], "design_ref": c["design_ref"]},
          "level_note": c["note"],
          "technique": c.get("technique", TECH),
        })
    else:
        m["not_applicable"].append({"property_id": pid, "reason": not_applicable.get(pid, PENDING)})
json.dump(m, open(os.path.join(HERE, "MANIFEST.json"), "w"), indent=1)
print("checks:", [c["property_id"] for c in m["checks"]])
