#!/usr/bin/env python3
"""mkmutant.py NAME PROPERTY FILE  (reads OLD\n---\nNEW from stdin, and obligations from env OBLIGATIONS separated by ';')
Creates selftest/mutants/NAME.patch (diff against /repo HEAD) and NAME.expect."""
import sys, os, subprocess, tempfile, shutil
name, prop, path = sys.argv[1:4]
data = sys.stdin.read()
old, new = data.split("\n---\n", 1)
new = new.rstrip("\n")
old = old.rstrip("\n")
src = open(os.path.join("/repo", path)).read()
if src.count(old) != 1:
    sys.exit(f"{name}: OLD occurs {src.count(old)} times in {path}")
tmp = tempfile.mkdtemp()
try:
    a = os.path.join(tmp, "a", path); b = os.path.join(tmp, "b", path)
    os.makedirs(os.path.dirname(a)); os.makedirs(os.path.dirname(b))
    open(a, "w").write(src); open(b, "w").write(src.replace(old, new))
    r = subprocess.run(["diff", "-u", "a/" + path, "b/" + path], cwd=tmp, capture_output=True, text=True)
    here = os.path.join(os.path.dirname(os.path.dirname(os.path.abspath(__file__))), "selftest", "mutants")
    open(os.path.join(here, name + ".patch"), "w").write(r.stdout)
    obs = [o for o in os.environ.get("OBLIGATIONS", "").split(";") if o.strip()]
    open(os.path.join(here, name + ".expect"), "w").write("property: %s\n" % prop + "".join("obligation: %s\n" % o.strip() for o in obs))
    print("wrote", name)
finally:
    shutil.rmtree(tmp)
