package main

// Contract expression language: lexer, parser, AST.

import (
	"fmt"
	"strconv"
	"strings"
	"unicode"
)

type Expr interface{ exprString() string }

type (
	EIdent struct{ Name string }
	EInt   struct{ V int64 }
	EStr   struct{ V string }
	EBool  struct{ V bool }
	ENil   struct{}
	EUnary struct {
		Op string
		X  Expr
	}
	EBinary struct {
		Op   string
		X, Y Expr
	}
	ECall struct {
		Fun  string // possibly qualified: pkg.Name
		Args []Expr
	}
	EField struct {
		X    Expr
		Name string
	}
	EIndex struct {
		X, I Expr
	}
	ESlice struct {
		X      Expr
		Lo, Hi Expr // may be nil
	}
	EQuant struct {
		Forall bool
		Vars   []EVar
		Body   Expr
		Pats   [][]Expr
	}
	EOld struct{ X Expr }
)

type EVar struct {
	Name string
	Type string // textual type
}

func (e *EIdent) exprString() string  { return e.Name }
func (e *EInt) exprString() string    { return strconv.FormatInt(e.V, 10) }
func (e *EStr) exprString() string    { return strconv.Quote(e.V) }
func (e *EBool) exprString() string   { return fmt.Sprint(e.V) }
func (e *ENil) exprString() string    { return "nil" }
func (e *EUnary) exprString() string  { return e.Op + e.X.exprString() }
func (e *EBinary) exprString() string { return "(" + e.X.exprString() + " " + e.Op + " " + e.Y.exprString() + ")" }
func (e *ECall) exprString() string {
	var a []string
	for _, x := range e.Args {
		a = append(a, x.exprString())
	}
	return e.Fun + "(" + strings.Join(a, ", ") + ")"
}
func (e *EField) exprString() string { return e.X.exprString() + "." + e.Name }
func (e *EIndex) exprString() string { return e.X.exprString() + "[" + e.I.exprString() + "]" }
func (e *ESlice) exprString() string {
	lo, hi := "", ""
	if e.Lo != nil {
		lo = e.Lo.exprString()
	}
	if e.Hi != nil {
		hi = e.Hi.exprString()
	}
	return e.X.exprString() + "[" + lo + ":" + hi + "]"
}
func (e *EQuant) exprString() string {
	k := "exists"
	if e.Forall {
		k = "forall"
	}
	var vs []string
	for _, v := range e.Vars {
		vs = append(vs, v.Name+" "+v.Type)
	}
	return "(" + k + " " + strings.Join(vs, ", ") + " :: " + e.Body.exprString() + ")"
}
func (e *EOld) exprString() string { return "old(" + e.X.exprString() + ")" }

type ctoken struct {
	kind string // ident, int, str, op, eof
	text string
}

func lexExpr(s string) ([]ctoken, error) {
	var toks []ctoken
	i := 0
	for i < len(s) {
		c := s[i]
		switch {
		case c == ' ' || c == '\t' || c == '\n':
			i++
		case unicode.IsLetter(rune(c)) || c == '_':
			j := i
			for j < len(s) && (unicode.IsLetter(rune(s[j])) || unicode.IsDigit(rune(s[j])) || s[j] == '_' || s[j] == '$' || s[j] == '#') {
				j++
			}
			toks = append(toks, ctoken{"ident", s[i:j]})
			i = j
		case c >= '0' && c <= '9':
			j := i
			for j < len(s) && (s[j] >= '0' && s[j] <= '9' || s[j] == 'x' || (s[j] >= 'a' && s[j] <= 'f') || (s[j] >= 'A' && s[j] <= 'F')) {
				j++
			}
			toks = append(toks, ctoken{"int", s[i:j]})
			i = j
		case c == '"':
			j := i + 1
			for j < len(s) && s[j] != '"' {
				if s[j] == '\\' {
					j++
				}
				j++
			}
			if j >= len(s) {
				return nil, fmt.Errorf("unterminated string in %q", s)
			}
			v, err := strconv.Unquote(s[i : j+1])
			if err != nil {
				return nil, fmt.Errorf("bad string literal %s: %v", s[i:j+1], err)
			}
			toks = append(toks, ctoken{"str", v})
			i = j + 1
		case c == '\'':
			// rune literal
			j := i + 1
			for j < len(s) && s[j] != '\'' {
				if s[j] == '\\' {
					j++
				}
				j++
			}
			v, _, _, err := strconv.UnquoteChar(s[i+1:j], '\'')
			if err != nil {
				return nil, fmt.Errorf("bad rune literal in %q", s)
			}
			toks = append(toks, ctoken{"int", strconv.Itoa(int(v))})
			i = j + 1
		default:
			ops := []string{"<==>", "==>", "::", "&&", "||", "==", "!=", "<=", ">=", "+", "-", "*", "/", "%", "<", ">", "!", "(", ")", "[", "]", ",", ".", ":", "{", "}"}
			matched := false
			for _, op := range ops {
				if strings.HasPrefix(s[i:], op) {
					toks = append(toks, ctoken{"op", op})
					i += len(op)
					matched = true
					break
				}
			}
			if !matched {
				return nil, fmt.Errorf("unexpected character %q in %q", c, s)
			}
		}
	}
	toks = append(toks, ctoken{"eof", ""})
	return toks, nil
}

type exprParser struct {
	toks []ctoken
	pos  int
	src  string
}

func ParseExpr(s string) (e Expr, err error) {
	toks, err := lexExpr(s)
	if err != nil {
		return nil, err
	}
	p := &exprParser{toks: toks, src: s}
	defer func() {
		if r := recover(); r != nil {
			if pe, ok := r.(parseErr); ok {
				err = fmt.Errorf("%s in %q", string(pe), s)
				return
			}
			panic(r)
		}
	}()
	e = p.parseIff()
	if p.peek().kind != "eof" {
		p.fail("unexpected token %q", p.peek().text)
	}
	return e, nil
}

type parseErr string

func (p *exprParser) fail(f string, a ...interface{}) { panic(parseErr(fmt.Sprintf(f, a...))) }
func (p *exprParser) peek() ctoken                      { return p.toks[p.pos] }
func (p *exprParser) next() ctoken                      { t := p.toks[p.pos]; p.pos++; return t }
func (p *exprParser) isOp(op string) bool {
	t := p.peek()
	return t.kind == "op" && t.text == op
}
func (p *exprParser) expectOp(op string) {
	if !p.isOp(op) {
		p.fail("expected %q, got %q", op, p.peek().text)
	}
	p.pos++
}

func (p *exprParser) parseIff() Expr {
	x := p.parseImplies()
	for p.isOp("<==>") {
		p.pos++
		y := p.parseImplies()
		x = &EBinary{"<==>", x, y}
	}
	return x
}
func (p *exprParser) parseImplies() Expr {
	x := p.parseOr()
	if p.isOp("==>") {
		p.pos++
		y := p.parseImplies() // right assoc
		return &EBinary{"==>", x, y}
	}
	return x
}
func (p *exprParser) parseOr() Expr {
	x := p.parseAnd()
	for p.isOp("||") {
		p.pos++
		x = &EBinary{"||", x, p.parseAnd()}
	}
	return x
}
func (p *exprParser) parseAnd() Expr {
	x := p.parseCmp()
	for p.isOp("&&") {
		p.pos++
		x = &EBinary{"&&", x, p.parseCmp()}
	}
	return x
}
func (p *exprParser) parseCmp() Expr {
	x := p.parseAdd()
	for _, op := range []string{"==", "!=", "<=", ">=", "<", ">"} {
		if p.isOp(op) {
			p.pos++
			return &EBinary{op, x, p.parseAdd()}
		}
	}
	return x
}
func (p *exprParser) parseAdd() Expr {
	x := p.parseMul()
	for p.isOp("+") || p.isOp("-") {
		op := p.next().text
		x = &EBinary{op, x, p.parseMul()}
	}
	return x
}
func (p *exprParser) parseMul() Expr {
	x := p.parseUnary()
	for p.isOp("*") || p.isOp("/") || p.isOp("%") {
		op := p.next().text
		x = &EBinary{op, x, p.parseUnary()}
	}
	return x
}
func (p *exprParser) parseUnary() Expr {
	if p.isOp("!") || p.isOp("-") {
		op := p.next().text
		return &EUnary{op, p.parseUnary()}
	}
	return p.parsePostfix()
}

func (p *exprParser) parseTypeText() string {
	// a type is a sequence of tokens up to ',' or '::' at depth 0: e.g. int, []string, map[string]string, label.TargetLabel, *model.Target
	var b strings.Builder
	depth := 0
	for {
		t := p.peek()
		if t.kind == "eof" {
			break
		}
		if t.kind == "op" && depth == 0 && (t.text == "," || t.text == "::" || t.text == ")") {
			break
		}
		if t.kind == "op" && (t.text == "[" || t.text == "(") {
			depth++
		}
		if t.kind == "op" && (t.text == "]" || t.text == ")") {
			depth--
		}
		b.WriteString(t.text)
		p.pos++
	}
	return b.String()
}

func (p *exprParser) parsePrimary() Expr {
	t := p.next()
	switch t.kind {
	case "int":
		v, err := strconv.ParseInt(t.text, 0, 64)
		if err != nil {
			p.fail("bad int %q", t.text)
		}
		return &EInt{v}
	case "str":
		return &EStr{t.text}
	case "ident":
		switch t.text {
		case "true":
			return &EBool{true}
		case "false":
			return &EBool{false}
		case "nil":
			return &ENil{}
		case "forall", "exists":
			var vars []EVar
			for {
				name := p.next()
				if name.kind != "ident" {
					p.fail("expected bound variable name")
				}
				ty := p.parseTypeText()
				vars = append(vars, EVar{name.text, ty})
				if p.isOp(",") {
					p.pos++
					continue
				}
				break
			}
			p.expectOp("::")
			var pats [][]Expr
			for p.isOp("{") {
				p.pos++
				var pat []Expr
				for !p.isOp("}") {
					pat = append(pat, p.parseIff())
					if p.isOp(",") {
						p.pos++
					}
				}
				p.expectOp("}")
				pats = append(pats, pat)
			}
			body := p.parseIff()
			return &EQuant{Forall: t.text == "forall", Vars: vars, Body: body, Pats: pats}
		case "old":
			if p.isOp("(") {
				p.pos++
				x := p.parseIff()
				p.expectOp(")")
				return &EOld{x}
			}
		}
		name := t.text
		// qualified name pkg.Name( ... ) handled in postfix as field then call
		return &EIdent{name}
	case "op":
		if t.text == "(" {
			// could be a method-expression style name like (*Walker).startNode — not supported in exprs
			x := p.parseIff()
			p.expectOp(")")
			return x
		}
	}
	p.fail("unexpected token %q", t.text)
	return nil
}

func (p *exprParser) parsePostfix() Expr {
	x := p.parsePrimary()
	for {
		switch {
		case p.isOp("."):
			p.pos++
			n := p.next()
			if n.kind != "ident" {
				p.fail("expected field name after '.'")
			}
			x = &EField{x, n.text}
		case p.isOp("("):
			p.pos++
			var args []Expr
			for !p.isOp(")") {
				args = append(args, p.parseIff())
				if p.isOp(",") {
					p.pos++
				}
			}
			p.expectOp(")")
			name := ""
			switch f := x.(type) {
			case *EIdent:
				name = f.Name
			case *EField:
				if id, ok := f.X.(*EIdent); ok {
					name = id.Name + "." + f.Name
				} else {
					// method-style call x.f(args) => f(x, args)
					name = f.Name
					args = append([]Expr{f.X}, args...)
				}
			default:
				p.fail("cannot call %s", x.exprString())
			}
			x = &ECall{name, args}
		case p.isOp("["):
			p.pos++
			var lo, hi Expr
			if p.isOp(":") {
				p.pos++
				if !p.isOp("]") {
					hi = p.parseIff()
				}
				p.expectOp("]")
				x = &ESlice{x, nil, hi}
				continue
			}
			lo = p.parseIff()
			if p.isOp(":") {
				p.pos++
				if !p.isOp("]") {
					hi = p.parseIff()
				}
				p.expectOp("]")
				x = &ESlice{x, lo, hi}
				continue
			}
			p.expectOp("]")
			x = &EIndex{x, lo}
		default:
			return x
		}
	}
}
