package main

// Contract files (//@ comments in /repo, build tag verif) and spec files (/verif/specs/*.spec).

import (
	"bufio"
	"fmt"
	"os"
	"path/filepath"
	"regexp"
	"sort"
	"strconv"
	"strings"
)

type Clause struct {
	Kind  string // requires, ensures, invariant, assert
	Label string
	Text  string
	E     Expr
	File  string
	Line  int
}

type LoopContract struct {
	Invariants []*Clause
	Completes  string // label of a `completes` clause: no iteration ends the process (no call of a function that does not return)
	Modifies   []string // extra names to havoc (rarely needed)
}

type FuncContract struct {
	Key        string // full function name (ssa String())
	Pkg        string // package path of the contract file ("" for externs)
	Params     []string
	Results    []string
	Requires   []*Clause
	Ensures    []*Clause
	Modifies   []Expr // object-specific frame; nil + !ModDeclared => computed write set
	ModDeclared bool
	ModText    string
	Pure       bool // no writes to modelled state
	Trusted    bool // contract assumed, body not verified
	Extern     bool // non-repository function (assumed)
	MayPanic   bool
	NonBlocking bool // `nonblocking`: every channel send in the function's own body must provably find buffer space (its `chan` obligations are claimed even when new)
	NoBody     bool
	Loops      map[int]*LoopContract
	Lemma      bool
	File       string
	Line       int
	Acquires   []Expr
	Releases   []Expr
	Spawns     bool
	CrashInv   *Clause
	Notes      []string
	Reveal     []string
	Uses       []string
	Allocates  []string
	GhostSets  []GhostSet
	CallAsserts map[string][]*Clause // "callee#k" -> assertions checked right before that call site
	Defines    []*LocalDef
	CapturedRequires []*Clause // closures: facts about captured state, proved where the closure is created and assumed at its entry (stability until the call is an assumption)
	LockProtocols []LockProtocol // local mutex protecting a local variable: two-state clause assumed at acquire (after havoc), asserted at release
	readsState, readsStateKnown bool
	EntryAssumes []*Clause // facts that define thread-local ghost state of the goroutine running this function (assumed at entry, never asserted at spawn)
}

// LocalDef: a contract-local definition `define name(p T, ...) S = expr`: a fresh function symbol whose defining equation
// (expr evaluated in the function's entry state / the call's pre-state) is assumed. A conservative definitional extension.
type LocalDef struct {
	Name   string
	Params []EVar
	Ret    string
	Body   Expr
	File   string
	Line   int
}

// GhostSet: a ghost assignment performed when the function returns (definition of ghost state, not an assumption).
type GhostSet struct {
	LHS  Expr
	RHS  Expr
	Text string
	File string
	Line int
}

type SpecFn struct {
	Name   string
	Params []EVar
	Ret    string
	Body   Expr
	Text   string
	Rec    bool
	Opaque bool
	File   string
	Line   int
}

type SpecAxiom struct {
	Name    string
	Text    string
	E       Expr
	File    string
	Line    int
	Theorem bool     // a proved consequence of definitions: used as an axiom elsewhere, and checked as a lemma (with `reveal`)
	Reveal  []string
}

type SpecLemma struct {
	Name     string
	Params   []EVar
	Text     string
	E        Expr
	Requires []*Clause
	File     string
	Line     int
	Props    []string
	Reveal   []string
	NoAxioms bool
}

type GhostField struct {
	TypeText string // pkg.Type
	Name     string
	SortText string
}

// LockProtocol: `lock_protocol <mutex var> guards <var> [label] expr`. expr is a two-state clause over the guarded variable:
// old(...) is the state at the last release (when assumed at an acquire: other threads obey it) or at the matching acquire
// (when asserted at a release: this thread obeys it).
type LockProtocol struct {
	Mutex, Var string
	Clause     *Clause
}

type RelyDecl struct {
	Pkg    string
	Env    string
	Callee *regexp.Regexp
}

type SpecSet struct {
	Sorts      map[string]bool
	Fns        []*SpecFn
	Axioms     []*SpecAxiom
	Lemmas     []*SpecLemma
	Ghosts     []*GhostField
	GhostVars  []EVar
	Externs    []*FuncContract
	PkgFrames  map[string]bool // package paths declared effect-free on modelled state
	Relies     []RelyDecl      // interference: inside functions of Pkg, the contract Env is applied before every call whose callee key matches Callee
	FuncTypes  map[string]*FuncContract
	Guards     []GuardDecl
	LockInvs   []LockInv
	Macros     map[string]*Macro
}

// Macro: a named contract expression with parameters, expanded where it is used (it may read the heap).
type Macro struct {
	Name   string
	Params []string
	Body   Expr
}

type GuardDecl struct {
	TypeText string
	Fields   []string
	Mutex    string
}

type LockInv struct {
	TypeText string
	Mutex    string
	Clause   *Clause
}

var headerRe = regexp.MustCompile(`^(func|extern|functype|lemma)\s+((?:\([^)]*\)\.)?[A-Za-z0-9_$./\-]+)\s*\(([^)]*)\)\s*(?:\(([^)]*)\))?\s*$`)
var labelRe = regexp.MustCompile(`^\[([A-Za-z0-9_.#|:\-]+)\]\s*`)

func splitNames(s string) []string {
	var out []string
	for _, x := range strings.Split(s, ",") {
		x = strings.TrimSpace(x)
		if x != "" {
			out = append(out, x)
		}
	}
	return out
}

type rawLine struct {
	text string
	file string
	line int
}

func readContractLines(path string, requirePrefix bool) ([]rawLine, string, error) {
	f, err := os.Open(path)
	if err != nil {
		return nil, "", err
	}
	defer f.Close()
	var out []rawLine
	pkg := ""
	sc := bufio.NewScanner(f)
	sc.Buffer(make([]byte, 1<<20), 1<<20)
	n := 0
	for sc.Scan() {
		n++
		l := sc.Text()
		if requirePrefix {
			t := strings.TrimSpace(l)
			if strings.HasPrefix(t, "package ") && pkg == "" {
				pkg = strings.TrimSpace(strings.TrimPrefix(t, "package "))
			}
			if strings.HasPrefix(t, "// @") {
				t = "//@" + t[4:]
			}
			if !strings.HasPrefix(t, "//@") {
				continue
			}
			l = strings.TrimPrefix(t, "//@")
		}
		if i := strings.Index(l, "//#"); i >= 0 { // comment inside contract text
			l = l[:i]
		}
		if !requirePrefix {
			if i := strings.Index(l, "// "); i >= 0 && !strings.Contains(l[:i], "\"") {
				l = l[:i]
			}
			if strings.HasPrefix(strings.TrimSpace(l), "//") {
				continue
			}
		}
		if strings.TrimSpace(l) == "" {
			continue
		}
		out = append(out, rawLine{l, path, n})
	}
	return out, pkg, sc.Err()
}

var clauseKeywords = map[string]bool{"requires": true, "ensures": true, "invariant": true, "modifies": true, "pure": true,
	"trusted": true, "may_panic": true, "loop": true, "func": true, "extern": true, "functype": true, "lemma": true,
	"sort": true, "fn": true, "axiom": true, "ghost": true, "pkgframe": true, "rely": true, "guarded": true, "lockinv": true,
	"acquires": true, "releases": true, "opaque": true, "reveal": true, "uses": true, "allocates": true, "noaxioms": true, "ghostset": true, "before_call": true, "macro": true, "define": true, "theorem": true, "entry_assume": true, "captured_requires": true, "lock_protocol": true, "crashinv": true, "note": true, "recfn": true, "props": true, "completes": true, "nonblocking": true}

func firstWord(s string) (string, string) {
	s = strings.TrimSpace(s)
	i := strings.IndexAny(s, " \t")
	if i < 0 {
		return s, ""
	}
	return s[:i], strings.TrimSpace(s[i+1:])
}

// ParseContractText parses a sequence of directive lines into the spec set / contracts.
// pkgPath is the package path for `func` headers (repo contract files); for spec files it is "".
func parseDirectives(lines []rawLine, pkgPath string, spec *SpecSet, contracts map[string]*FuncContract) error {
	// join continuation lines
	type dir struct {
		kw, rest string
		file     string
		line     int
	}
	var dirs []dir
	for _, l := range lines {
		kw, rest := firstWord(l.text)
		if clauseKeywords[kw] {
			dirs = append(dirs, dir{kw, rest, l.file, l.line})
		} else {
			if len(dirs) == 0 {
				return fmt.Errorf("%s:%d: continuation line without directive: %q", l.file, l.line, l.text)
			}
			dirs[len(dirs)-1].rest += " " + strings.TrimSpace(l.text)
		}
	}
	var cur *FuncContract
	var curLoop *LoopContract
	var curLemma *SpecLemma
	var curAxiom *SpecAxiom
	mkClause := func(kind string, d dir) (*Clause, error) {
		rest := d.rest
		label := ""
		if m := labelRe.FindStringSubmatch(rest); m != nil {
			label = m[1]
			rest = rest[len(m[0]):]
		}
		e, err := ParseExpr(rest)
		if err != nil {
			return nil, fmt.Errorf("%s:%d: %v", d.file, d.line, err)
		}
		return &Clause{Kind: kind, Label: label, Text: rest, E: e, File: d.file, Line: d.line}, nil
	}
	for _, d := range dirs {
		switch d.kw {
		case "func", "extern", "functype":
			m := headerRe.FindStringSubmatch(d.kw + " " + d.rest)
			if m == nil {
				return fmt.Errorf("%s:%d: bad header: %s %s", d.file, d.line, d.kw, d.rest)
			}
			name := m[2]
			key := name
			if d.kw == "func" {
				key = qualifyFuncName(pkgPath, name)
			}
			cur = &FuncContract{Key: key, Pkg: pkgPath, Params: splitNames(m[3]), Results: splitNames(m[4]),
				Loops: map[int]*LoopContract{}, File: d.file, Line: d.line}
			curLoop = nil
			curLemma = nil
			curAxiom = nil
			switch d.kw {
			case "extern":
				cur.Extern = true
				cur.Trusted = true
				spec.Externs = append(spec.Externs, cur)
				contracts[key] = cur
			case "functype":
				cur.Extern = true
				cur.Trusted = true
				spec.FuncTypes[key] = cur
			default:
				if _, dup := contracts[key]; dup {
					return fmt.Errorf("%s:%d: duplicate contract for %s", d.file, d.line, key)
				}
				contracts[key] = cur
			}
		case "loop":
			if cur == nil {
				return fmt.Errorf("%s:%d: loop outside func", d.file, d.line)
			}
			k, err := strconv.Atoi(strings.TrimPrefix(strings.TrimSpace(d.rest), "#"))
			if err != nil {
				return fmt.Errorf("%s:%d: bad loop ordinal %q", d.file, d.line, d.rest)
			}
			curLoop = &LoopContract{}
			cur.Loops[k] = curLoop
		case "lock_protocol":
			parts := strings.Fields(d.rest)
			if cur == nil || len(parts) < 4 || parts[1] != "guards" {
				return fmt.Errorf("%s:%d: lock_protocol <mutex> guards <var> [label] expr", d.file, d.line)
			}
			rest := strings.TrimSpace(strings.SplitN(d.rest, parts[2], 2)[1])
			c, err := mkClause("lock_protocol", dir{"lock_protocol", rest, d.file, d.line})
			if err != nil {
				return err
			}
			cur.LockProtocols = append(cur.LockProtocols, LockProtocol{Mutex: parts[0], Var: parts[2], Clause: c})
		case "captured_requires":
			c, err := mkClause("captured_requires", d)
			if err != nil {
				return err
			}
			if cur == nil {
				return fmt.Errorf("%s:%d: captured_requires outside func", d.file, d.line)
			}
			cur.CapturedRequires = append(cur.CapturedRequires, c)
		case "entry_assume":
			c, err := mkClause("entry_assume", d)
			if err != nil {
				return err
			}
			if cur == nil {
				return fmt.Errorf("%s:%d: entry_assume outside func", d.file, d.line)
			}
			cur.EntryAssumes = append(cur.EntryAssumes, c)
		case "requires", "ensures", "invariant", "crashinv":
			c, err := mkClause(d.kw, d)
			if err != nil {
				return err
			}
			if curLemma != nil && d.kw == "requires" {
				curLemma.Requires = append(curLemma.Requires, c)
				continue
			}
			if cur == nil {
				return fmt.Errorf("%s:%d: %s outside func", d.file, d.line, d.kw)
			}
			switch d.kw {
			case "requires":
				cur.Requires = append(cur.Requires, c)
			case "ensures":
				cur.Ensures = append(cur.Ensures, c)
			case "crashinv":
				cur.CrashInv = c
			case "invariant":
				if curLoop == nil {
					return fmt.Errorf("%s:%d: invariant outside loop", d.file, d.line)
				}
				curLoop.Invariants = append(curLoop.Invariants, c)
			}
		case "completes":
			if curLoop == nil {
				return fmt.Errorf("%s:%d: completes outside loop", d.file, d.line)
			}
			lab := strings.Trim(strings.TrimSpace(d.rest), "[]")
			if lab == "" {
				lab = "completes"
			}
			curLoop.Completes = lab
		case "modifies":
			if cur == nil {
				return fmt.Errorf("%s:%d: modifies outside func", d.file, d.line)
			}
			if curLoop != nil {
				curLoop.Modifies = append(curLoop.Modifies, splitNames(d.rest)...)
				continue
			}
			cur.ModDeclared = true
			cur.ModText += d.rest + " "
			if strings.TrimSpace(d.rest) != "nothing" {
				for _, part := range splitTop(d.rest) {
					e, err := ParseExpr(part)
					if err != nil {
						return fmt.Errorf("%s:%d: %v", d.file, d.line, err)
					}
					cur.Modifies = append(cur.Modifies, e)
				}
			}
		case "acquires", "releases":
			e, err := ParseExpr(d.rest)
			if err != nil {
				return fmt.Errorf("%s:%d: %v", d.file, d.line, err)
			}
			if d.kw == "acquires" {
				cur.Acquires = append(cur.Acquires, e)
			} else {
				cur.Releases = append(cur.Releases, e)
			}
		case "pure":
			cur.Pure = true
			cur.ModDeclared = true
		case "trusted":
			cur.Trusted = true
		case "may_panic":
			cur.MayPanic = true
		case "nonblocking":
			if cur == nil {
				return fmt.Errorf("%s:%d: nonblocking outside func", d.file, d.line)
			}
			cur.NonBlocking = true
		case "note":
			if cur != nil {
				cur.Notes = append(cur.Notes, d.rest)
			}
		case "sort":
			spec.Sorts[strings.TrimSpace(d.rest)] = true
		case "define":
			if cur == nil {
				return fmt.Errorf("%s:%d: define outside func", d.file, d.line)
			}
			f, err := parseSpecFn(d.rest)
			if err != nil || f.Body == nil {
				return fmt.Errorf("%s:%d: define needs 'name(params) sort = expr'", d.file, d.line)
			}
			cur.Defines = append(cur.Defines, &LocalDef{Name: f.Name, Params: f.Params, Ret: f.Ret, Body: f.Body, File: d.file, Line: d.line})
		case "macro":
			// macro name(p1, p2) = expr
			i := strings.Index(d.rest, "(")
			j := strings.Index(d.rest, ")")
			k := strings.Index(d.rest, "=")
			if i < 0 || j < i || k < j {
				return fmt.Errorf("%s:%d: macro needs 'name(params) = expr'", d.file, d.line)
			}
			body, err := ParseExpr(d.rest[k+1:])
			if err != nil {
				return fmt.Errorf("%s:%d: %v", d.file, d.line, err)
			}
			name := strings.TrimSpace(d.rest[:i])
			spec.Macros[name] = &Macro{Name: name, Params: splitNames(d.rest[i+1 : j]), Body: body}
		case "before_call":
			// before_call callee#k [label] expr
			if cur == nil {
				return fmt.Errorf("%s:%d: before_call outside func", d.file, d.line)
			}
			site, rest := firstWord(d.rest)
			c, err := mkClause("assert", dir{"assert", rest, d.file, d.line})
			if err != nil {
				return err
			}
			if cur.CallAsserts == nil {
				cur.CallAsserts = map[string][]*Clause{}
			}
			cur.CallAsserts[site] = append(cur.CallAsserts[site], c)
		case "ghostset":
			if cur == nil {
				return fmt.Errorf("%s:%d: ghostset outside func", d.file, d.line)
			}
			i := strings.Index(d.rest, ":=")
			if i < 0 {
				return fmt.Errorf("%s:%d: ghostset needs 'lhs := expr'", d.file, d.line)
			}
			lhs, err := ParseExpr(d.rest[:i])
			if err != nil {
				return fmt.Errorf("%s:%d: %v", d.file, d.line, err)
			}
			rhs, err := ParseExpr(d.rest[i+2:])
			if err != nil {
				return fmt.Errorf("%s:%d: %v", d.file, d.line, err)
			}
			cur.GhostSets = append(cur.GhostSets, GhostSet{LHS: lhs, RHS: rhs, Text: d.rest, File: d.file, Line: d.line})
		case "noaxioms":
			if curLemma != nil {
				curLemma.NoAxioms = true
			}
		case "allocates":
			if cur != nil {
				cur.Allocates = append(cur.Allocates, splitNames(d.rest)...)
			}
		case "uses":
			if cur != nil {
				cur.Uses = append(cur.Uses, splitNames(d.rest)...)
			}
		case "reveal":
			if curAxiom != nil && cur == nil && curLemma == nil {
				curAxiom.Reveal = append(curAxiom.Reveal, splitNames(d.rest)...)
			} else if curLemma != nil {
				curLemma.Reveal = append(curLemma.Reveal, splitNames(d.rest)...)
			} else if cur != nil {
				cur.Reveal = append(cur.Reveal, splitNames(d.rest)...)
			}
		case "fn", "recfn", "opaque":
			f, err := parseSpecFn(d.rest)
			if err != nil {
				return fmt.Errorf("%s:%d: %v", d.file, d.line, err)
			}
			f.Rec = d.kw == "recfn"
			f.Opaque = d.kw == "opaque"
			f.File, f.Line = d.file, d.line
			spec.Fns = append(spec.Fns, f)
		case "axiom", "theorem":
			i := strings.Index(d.rest, ":")
			if i < 0 {
				return fmt.Errorf("%s:%d: axiom needs 'name: expr'", d.file, d.line)
			}
			e, err := ParseExpr(d.rest[i+1:])
			if err != nil {
				return fmt.Errorf("%s:%d: %v", d.file, d.line, err)
			}
			ax := &SpecAxiom{Name: strings.TrimSpace(d.rest[:i]), Text: d.rest[i+1:], E: e, File: d.file, Line: d.line, Theorem: d.kw == "theorem"}
			spec.Axioms = append(spec.Axioms, ax)
			curAxiom = ax
			cur = nil
			curLemma = nil
		case "lemma":
			// lemma name(params): expr
			i := strings.Index(d.rest, "(")
			j := strings.Index(d.rest, "):")
			if i < 0 || j < i {
				return fmt.Errorf("%s:%d: lemma needs 'name(params): expr'", d.file, d.line)
			}
			lm := &SpecLemma{Name: strings.TrimSpace(d.rest[:i]), File: d.file, Line: d.line, Text: strings.TrimSpace(d.rest[j+2:])}
			for _, pv := range splitTop(d.rest[i+1 : j]) {
				n, ty := firstWord(pv)
				lm.Params = append(lm.Params, EVar{n, ty})
			}
			e, err := ParseExpr(lm.Text)
			if err != nil {
				return fmt.Errorf("%s:%d: %v", d.file, d.line, err)
			}
			lm.E = e
			spec.Lemmas = append(spec.Lemmas, lm)
			curLemma = lm
			curAxiom = nil
			cur = nil
		case "props":
			if curLemma != nil {
				curLemma.Props = splitNames(d.rest)
			}
		case "ghost":
			// ghost field pkg.Type.name sort | ghost var name sort
			parts := strings.Fields(d.rest)
			if len(parts) == 3 && parts[0] == "field" {
				k := strings.LastIndex(parts[1], ".")
				spec.Ghosts = append(spec.Ghosts, &GhostField{TypeText: parts[1][:k], Name: parts[1][k+1:], SortText: parts[2]})
			} else if len(parts) == 3 && parts[0] == "var" {
				spec.GhostVars = append(spec.GhostVars, EVar{parts[1], parts[2]})
			} else {
				return fmt.Errorf("%s:%d: bad ghost declaration", d.file, d.line)
			}
		case "pkgframe":
			spec.PkgFrames[strings.TrimSpace(d.rest)] = true
		case "rely":
			// rely <package path> <contract key of the environment step> <regexp over callee keys>
			parts := strings.Fields(d.rest)
			if len(parts) != 3 {
				return fmt.Errorf("%s:%d: rely <pkg> <env contract> <callee regexp>", d.file, d.line)
			}
			re, err := regexp.Compile(parts[2])
			if err != nil {
				return fmt.Errorf("%s:%d: %v", d.file, d.line, err)
			}
			spec.Relies = append(spec.Relies, RelyDecl{Pkg: parts[0], Env: parts[1], Callee: re})
		case "guarded":
			// guarded pkg.Type: f1, f2 by mutexField
			i := strings.Index(d.rest, ":")
			j := strings.LastIndex(d.rest, " by ")
			if i < 0 || j < i {
				return fmt.Errorf("%s:%d: bad guarded declaration", d.file, d.line)
			}
			spec.Guards = append(spec.Guards, GuardDecl{TypeText: strings.TrimSpace(d.rest[:i]), Fields: splitNames(d.rest[i+1 : j]), Mutex: strings.TrimSpace(d.rest[j+4:])})
		case "lockinv":
			// lockinv pkg.Type.mutex [label] expr   (expr over `self`)
			kw, rest := firstWord(d.rest)
			k := strings.LastIndex(kw, ".")
			c, err := mkClause("lockinv", dir{"lockinv", rest, d.file, d.line})
			if err != nil {
				return err
			}
			spec.LockInvs = append(spec.LockInvs, LockInv{TypeText: kw[:k], Mutex: kw[k+1:], Clause: c})
		}
	}
	return nil
}

func splitTop(s string) []string {
	var out []string
	depth := 0
	start := 0
	for i := 0; i < len(s); i++ {
		switch s[i] {
		case '(', '[':
			depth++
		case ')', ']':
			depth--
		case ',':
			if depth == 0 {
				out = append(out, strings.TrimSpace(s[start:i]))
				start = i + 1
			}
		}
	}
	if strings.TrimSpace(s[start:]) != "" {
		out = append(out, strings.TrimSpace(s[start:]))
	}
	return out
}

func parseSpecFn(rest string) (*SpecFn, error) {
	// name(p type, ...) ret [= expr]
	i := strings.Index(rest, "(")
	if i < 0 {
		return nil, fmt.Errorf("bad fn declaration %q", rest)
	}
	depth := 0
	j := -1
	for k := i; k < len(rest); k++ {
		if rest[k] == '(' {
			depth++
		} else if rest[k] == ')' {
			depth--
			if depth == 0 {
				j = k
				break
			}
		}
	}
	if j < 0 {
		return nil, fmt.Errorf("bad fn declaration %q", rest)
	}
	f := &SpecFn{Name: strings.TrimSpace(rest[:i]), Text: rest}
	for _, pv := range splitTop(rest[i+1 : j]) {
		n, ty := firstWord(pv)
		f.Params = append(f.Params, EVar{n, ty})
	}
	tail := strings.TrimSpace(rest[j+1:])
	if k := strings.Index(tail, "="); k >= 0 && !strings.HasPrefix(tail[k:], "==") {
		f.Ret = strings.TrimSpace(tail[:k])
		e, err := ParseExpr(tail[k+1:])
		if err != nil {
			return nil, err
		}
		f.Body = e
	} else {
		f.Ret = tail
	}
	return f, nil
}

// qualifyFuncName turns "Name", "(*T).M", "(T).M", "Outer$1", "(*T).M$1" into the ssa full name.
func qualifyFuncName(pkgPath, name string) string {
	if strings.HasPrefix(name, "(") {
		i := strings.Index(name, ")")
		recv := name[1:i]
		rest := name[i+1:]
		if strings.HasPrefix(recv, "*") {
			return "(*" + pkgPath + "." + recv[1:] + ")" + rest
		}
		return "(" + pkgPath + "." + recv + ")" + rest
	}
	return pkgPath + "." + name
}

func NewSpecSet() *SpecSet {
	return &SpecSet{Sorts: map[string]bool{}, PkgFrames: map[string]bool{}, FuncTypes: map[string]*FuncContract{}, Macros: map[string]*Macro{}}
}

// LoadContracts reads spec files and the repository's contract files.
func (p *Program) LoadContracts(specDir string, only []string) error {
	p.Spec = NewSpecSet()
	specs, _ := filepath.Glob(filepath.Join(specDir, "*.spec"))
	sort.Strings(specs)
	for _, f := range specs {
		if len(only) > 0 {
			keep := false
			for _, o := range only {
				if strings.TrimSuffix(filepath.Base(f), ".spec") == o {
					keep = true
				}
			}
			if !keep {
				continue
			}
		}
		lines, _, err := readContractLines(f, false)
		if err != nil {
			return err
		}
		if err := parseDirectives(lines, "", p.Spec, p.Contracts); err != nil {
			return err
		}
	}
	for _, pk := range p.Pkgs {
		for _, gf := range pk.GoFiles {
			if !strings.HasSuffix(gf, "_verif.go") {
				continue
			}
			lines, _, err := readContractLines(gf, true)
			if err != nil {
				return err
			}
			if err := parseDirectives(lines, pk.PkgPath, p.Spec, p.Contracts); err != nil {
				return err
			}
		}
	}
	return nil
}
