package main

// Symbolic executor over go/ssa (NaiveForm): generates named obligations.

import (
	"regexp"
	"fmt"
	"os"
	"go/constant"
	"go/token"
	"go/types"
	"sort"
	"strings"

	"golang.org/x/tools/go/ssa"
)

type Obligation struct {
	Name    string // <pkg>.<Func>:<kind>[<label>]
	Fn      string
	Kind    string
	Label   string
	Clause  string
	Where   string
	Queries []*Query
	Traces  [][]string
	Trivial int // number of path instances whose goal folded to true
	// results
	Status  string // discharged | failed | unknown
	Solver  string
	Ms      int64
	Detail  string
	Model   string
	FailIdx int
}

type FuncReport struct {
	Key        string
	File       string
	Line       int
	SrcHash    string
	Instrs     int
	Paths      int
	Abstracted []string // calls without contract (havoc)
	Trusted    bool
	OutOfReach string
	Externs    []string
}

type Exec struct {
	loopOrdOf map[*ssa.BasicBlock]int // loops with a `completes` clause
	objectHavoc bool // externalArgsFrame is computing the frame of one call being executed (not a static summary)
	lockSnap map[*State]map[string]*State // unused placeholder
	escClosures map[*ssa.Function][]*ssa.Function // closures handed to external code, per function under verification
	loopFresh *FrameSet // during havocLoop: heaps written only through in-loop allocations
	prog   *Program
	fn     *ssa.Function
	fc     *FuncContract
	pkg    *types.Package
	obs    map[string]*Obligation
	obOrd  []string
	report *FuncReport
	paths  int
	maxPaths int
	safeOrd map[ssa.Instruction]string
	callOrd map[ssa.Instruction]int
	qualSite map[ssa.Instruction]string // "Recv.method#k": ordinal among the calls of that method of that receiver type (before_call sites)
	loopOrd map[*ssa.BasicBlock]int
	entry  *State // snapshot after parameter binding (for old())
	params map[string]TV
	abstr  map[string]bool
	externsUsed map[string]bool
	cellN  int
	sweep  bool // emit safety obligations
	nilChecks bool
	failed string
	curInstr ssa.Instruction
	opaquePtr map[*Cell]*Term
	guardOrd map[ssa.Instruction]string
	lemmas []*LemmaInst
	defs map[string]*FunDecl
	pendingForks []*State
	elideCache map[*ssa.BasicBlock]*ssa.BasicBlock
	assertedSites map[string]bool
	covers int
	callCovers map[string]int
	loopHeapNames map[*ssa.BasicBlock]map[string]bool
	fresh map[string]bool
}

type unsupported struct{ msg string }

func (x *Exec) unsupported(f string, a ...interface{}) {
	panic(unsupported{fmt.Sprintf(f, a...)})
}

func shortFuncName(key string) string {
	// strip module path prefix for readability: grog/internal/label.ParseTargetLabel -> label.ParseTargetLabel
	r := strings.NewReplacer(modulePath+"/internal/", "", modulePath+"/", "")
	return r.Replace(key)
}

func (x *Exec) obName(kind, label string) string {
	return fmt.Sprintf("%s:%s[%s]", shortFuncName(funcKey(x.fn)), kind, label)
}

func (x *Exec) reveal() map[string]bool {
	if x.fc == nil || len(x.fc.Reveal) == 0 {
		return nil
	}
	m := map[string]bool{}
	for _, n := range x.fc.Reveal {
		m[n] = true
	}
	return m
}

func (x *Exec) oblige(st *State, kind, label string, goal *Term, clause string) {
	name := x.obName(kind, label)
	ob := x.obs[name]
	if ob == nil {
		ob = &Obligation{Name: name, Fn: funcKey(x.fn), Kind: kind, Label: label, Clause: clause}
		if x.curInstr != nil && x.curInstr.Pos().IsValid() {
			ob.Where = x.prog.Fset.Position(x.curInstr.Pos()).String()
		}
		x.obs[name] = ob
		x.obOrd = append(x.obOrd, name)
	}
	if isTrue(goal) {
		ob.Trivial++
		return
	}
	ob.Queries = append(ob.Queries, &Query{U: x.prog.U, Lines: st.allLines(), Goal: goal, Reveal: x.reveal(), Lemmas: x.lemmas})
	ob.Traces = append(ob.Traces, append([]string{}, st.trace...))
	st.assume(goal, "asserted: "+name)
}

// ---------------------------------------------------------------------------
// fresh symbols

func (x *Exec) freshConst(st *State, base string, s Sort) *Term {
	name := x.prog.freshName(base)
	st.addLine(Line{Kind: LDecl, Name: name, Sort: s})
	return Const(name, s)
}

func (x *Exec) define(st *State, base string, t *Term) *Term {
	if t.Kind != KApp || len(t.Args) == 0 {
		return t
	}
	name := x.prog.freshName(base)
	st.addLine(Line{Kind: LDefine, Name: name, Sort: t.Sort, T: t})
	termDefs[name] = t
	return Const(name, t.Sort)
}

// termDefs: definitions of named intermediate terms (names are globally unique), used by the peephole simplifier.
var termDefs = map[string]*Term{}

func resolve(t *Term) *Term {
	for t != nil && t.Kind == KApp && len(t.Args) == 0 && t.Sym {
		d, ok := termDefs[t.Op]
		if !ok {
			break
		}
		t = d
	}
	return t
}

func (x *Exec) freshValue(st *State, base string, t types.Type) Value {
	if tup, ok := t.(*types.Tuple); ok {
		var out Tuple
		for i := 0; i < tup.Len(); i++ {
			out = append(out, x.freshValue(st, fmt.Sprintf("%s.%d", base, i), tup.At(i).Type()))
		}
		return out
	}
	s := x.prog.sortOf(t)
	c := x.freshConst(st, base, s)
	x.assumeTypeInv(st, c, t)
	return x.fromTerm(c, t)
}

// assumeTypeInv adds the facts every value of Go type t satisfies.
func (x *Exec) assumeTypeInv(st *State, c *Term, t types.Type) {
	switch u := t.Underlying().(type) {
	case *types.Slice:
		st.assume(Ge(x.sliceLen(c), IntLit(0)), "")
	case *types.Basic:
		if u.Info()&types.IsUnsigned != 0 {
			st.assume(Ge(c, IntLit(0)), "")
		}
		switch u.Kind() {
		case types.Int32: // rune
			st.assume(And(Ge(c, IntLit(-2147483648)), Le(c, IntLit(2147483647))), "")
		case types.Uint8:
			st.assume(Le(c, IntLit(255)), "")
		}
	case *types.Struct:
		if _, ok := x.prog.U.Datatypes[c.Sort]; ok {
			for i := 0; i < u.NumFields(); i++ {
				if _, isSl := u.Field(i).Type().Underlying().(*types.Slice); isSl {
					sel, fs := x.prog.fieldSel(c.Sort, i)
					st.assume(Ge(x.sliceLen(App(sel, fs, c)), IntLit(0)), "")
				}
			}
		}
	}
}

func (x *Exec) fromTerm(t *Term, typ types.Type) Value {
	switch u := typ.Underlying().(type) {
	case *types.Pointer:
		return &Ptr{Ref: t, Elem: u.Elem()}
	case *types.Signature:
		return &FuncVal{T: t, Sig: typ}
	}
	return t
}

func (x *Exec) toTerm(st *State, v Value, typ types.Type) *Term {
	switch u := v.(type) {
	case *Term:
		return u
	case *Ptr:
		if u.Ref != nil && len(u.Path) == 0 {
			return u.Ref
		}
		if u.Cell != nil && len(u.Path) == 0 {
			if t, ok := x.opaquePtr[u.Cell]; ok {
				return t
			}
			t := x.freshConst(st, "addr."+u.Cell.Name, SInt)
			st.assume(Gt(t, IntLit(0)), "")
			x.opaquePtr[u.Cell] = t
			return t
		}
		t := x.freshConst(st, "iptr", SInt)
		st.assume(Gt(t, IntLit(0)), "")
		return t
	case *FuncVal:
		if u.T != nil {
			return u.T
		}
		name := "fn$opaque"
		if u.Fn != nil {
			name = "fn$" + sanitize(u.Fn.Name())
		}
		t := x.freshConst(st, name, SInt)
		st.assume(Gt(t, IntLit(0)), "")
		u.T = t
		return t
	case nil:
		return x.prog.zero(typ)
	}
	x.unsupported("cannot convert %T to a term", v)
	return nil
}

// ---------------------------------------------------------------------------
// slices

func (x *Exec) sliceLen(s *Term) *Term {
	if r := resolve(s); r.Kind == KApp && r.Op == "mk$"+string(s.Sort) {
		return r.Args[1]
	}
	return App(string(s.Sort)+"$len", SInt, s)
}
func (x *Exec) sliceArr(s *Term) *Term {
	if r := resolve(s); r.Kind == KApp && r.Op == "mk$"+string(s.Sort) {
		return r.Args[0]
	}
	d := x.prog.U.Datatypes[s.Sort]
	return App(string(s.Sort)+"$arr", d.Fields[0].Sort, s)
}
func (x *Exec) mkSlice(s Sort, arr, ln *Term) *Term {
	return App("mk$"+string(s), s, arr, ln)
}

func selectS(a, i *Term) *Term {
	// select over store chains with literal indices
	orig := a
	a = resolve(a)
	for a.Kind == KApp && a.Op == "store" {
		j := a.Args[1]
		if i.Kind == KIntLit && j.Kind == KIntLit {
			if i.Int == j.Int {
				return a.Args[2]
			}
			a = resolve(a.Args[0])
			continue
		}
		if i == j || (i.Kind == KApp && j.Kind == KApp && len(i.Args) == 0 && len(j.Args) == 0 && i.Op == j.Op) {
			return a.Args[2]
		}
		break
	}
	if a.Kind == KApp && strings.HasPrefix(a.Op, "(as const") && i.Kind == KIntLit {
		return a.Args[0]
	}
	_ = orig
	return Select(orig, i)
}

// field selection with constructor folding
func (x *Exec) selField(v *Term, idx int) *Term {
	sel, fs := x.prog.fieldSel(v.Sort, idx)
	d := x.prog.U.Datatypes[v.Sort]
	if r := resolve(v); r.Kind == KApp && r.Op == d.Ctor {
		return r.Args[idx]
	}
	return App(sel, fs, v)
}

func (x *Exec) updField(v *Term, idx int, nv *Term) *Term {
	d := x.prog.U.Datatypes[v.Sort]
	args := make([]*Term, len(d.Fields))
	for i := range d.Fields {
		if i == idx {
			args[i] = nv
		} else {
			args[i] = x.selField(v, i)
		}
	}
	return App(d.Ctor, v.Sort, args...)
}

func itag(v *Term) *Term {
	if r := resolve(v); r.Kind == KApp && r.Op == "mkIface" {
		return r.Args[0]
	}
	return App("itag", SInt, v)
}
func ival(v *Term) *Term {
	if r := resolve(v); r.Kind == KApp && r.Op == "mkIface" {
		return r.Args[1]
	}
	return App("ival", SInt, v)
}

// ---------------------------------------------------------------------------
// heap

func heapFieldName(structSort Sort, field string) string { return "H$" + string(structSort) + "$" + field }
func heapCellName(s Sort) string                         { return "P$" + sortMangle(s) }

func (x *Exec) heapGet(st *State, name string, elem Sort) *Term {
	if t, ok := st.heap[name]; ok {
		return t
	}
	pre := name + "@pre"
	x.prog.U.AddFun(&FunDecl{Name: pre, Ret: ArraySort(SInt, elem)})
	x.prog.heapSort(name, ArraySort(SInt, elem))
	return Const(pre, ArraySort(SInt, elem))
}

var heapSorts = map[string]Sort{}

func (p *Program) heapSort(name string, s Sort) { heapSorts[name] = s }

func (x *Exec) heapSet(st *State, name string, t *Term) {
	heapSorts[name] = t.Sort
	st.heap[name] = x.define(st, name, t)
}

func (x *Exec) havocHeap(st *State, name string) {
	s, ok := heapSorts[name]
	if !ok {
		return
	}
	st.heap[name] = x.freshConst(st, name+"!havoc", s)
}

func (x *Exec) globalName(g *ssa.Global) string {
	return "G$" + sanitize(shortFuncName(g.Pkg.Pkg.Path()+"."+g.Name()))
}

// struct type helper: returns the struct and its sort if t is an in-module (datatype) struct
func (x *Exec) structOf(t types.Type) (*types.Struct, Sort, bool) {
	st, ok := t.Underlying().(*types.Struct)
	if !ok {
		return nil, "", false
	}
	s := x.prog.sortOf(t)
	if _, isDT := x.prog.U.Datatypes[s]; !isDT {
		return st, s, false
	}
	return st, s, true
}

func (x *Exec) navigate(v *Term, t types.Type, path []PathElem) (*Term, types.Type) {
	for _, e := range path {
		if e.IsIndex {
			switch c := t.Underlying().(type) {
			case *types.Array:
				v = selectS(v, e.Index)
				t = c.Elem()
			case *types.Slice:
				v = selectS(x.sliceArr(v), e.Index)
				t = c.Elem()
			default:
				x.unsupported("index into %s", t)
			}
		} else {
			stt, _, ok := x.structOf(t)
			if !ok {
				x.unsupported("field access into opaque struct %s", t)
			}
			v = x.selField(v, e.Field)
			t = stt.Field(e.Field).Type()
		}
	}
	return v, t
}

func (x *Exec) update(v *Term, t types.Type, path []PathElem, nv *Term) *Term {
	if len(path) == 0 {
		return nv
	}
	e := path[0]
	if e.IsIndex {
		switch c := t.Underlying().(type) {
		case *types.Array:
			inner := x.update(selectS(v, e.Index), c.Elem(), path[1:], nv)
			return Store(v, e.Index, inner)
		case *types.Slice:
			arr := x.sliceArr(v)
			inner := x.update(selectS(arr, e.Index), c.Elem(), path[1:], nv)
			return x.mkSlice(v.Sort, Store(arr, e.Index, inner), x.sliceLen(v))
		}
		x.unsupported("index update into %s", t)
	}
	stt, _, ok := x.structOf(t)
	if !ok {
		x.unsupported("field update into opaque struct %s", t)
	}
	inner := x.update(x.selField(v, e.Field), stt.Field(e.Field).Type(), path[1:], nv)
	return x.updField(v, e.Field, inner)
}

// load reads through a pointer.
func (x *Exec) load(st *State, p *Ptr) (Value, types.Type) {
	switch {
	case p.Cell != nil:
		v := st.cells[p.Cell]
		if len(p.Path) == 0 {
			return v, p.Cell.Typ
		}
		t, ok := v.(*Term)
		if !ok {
			x.unsupported("path into non-term cell %s", p.Cell.Name)
		}
		r, rt := x.navigate(t, p.Cell.Typ, p.Path)
		return x.fromTerm(r, rt), rt
	case p.Global != nil:
		name := x.globalName(p.Global)
		gt := p.Global.Type().(*types.Pointer).Elem()
		var v *Term
		if t, ok := st.heap[name]; ok {
			v = t
		} else {
			s := x.prog.sortOf(gt)
			x.prog.U.AddFun(&FunDecl{Name: name + "@pre", Ret: s})
			heapSorts[name] = s
			v = Const(name+"@pre", s)
		}
		r, rt := x.navigate(v, gt, p.Path)
		return x.fromTerm(r, rt), rt
	}
	if p.Ref == nil {
		x.unsupported("load through unknown pointer")
	}
	path := p.Path
	if stt, ss, ok := x.structOf(p.Elem); ok {
		if len(path) > 0 && !path[0].IsIndex {
			f := stt.Field(path[0].Field)
			fs := x.prog.sortOf(f.Type())
			arr := x.heapGet(st, heapFieldName(ss, f.Name()), fs)
			r, rt := x.navigate(selectS(arr, p.Ref), f.Type(), path[1:])
			return x.fromTerm(r, rt), rt
		}
		// whole struct
		d := x.prog.U.Datatypes[ss]
		args := make([]*Term, stt.NumFields())
		for i := 0; i < stt.NumFields(); i++ {
			f := stt.Field(i)
			arr := x.heapGet(st, heapFieldName(ss, f.Name()), x.prog.sortOf(f.Type()))
			args[i] = selectS(arr, p.Ref)
		}
		if stt.NumFields() == 0 {
			args = []*Term{False}
		}
		return App(d.Ctor, ss, args...), p.Elem
	}
	s := x.prog.sortOf(p.Elem)
	arr := x.heapGet(st, heapCellName(s), s)
	r, rt := x.navigate(selectS(arr, p.Ref), p.Elem, path)
	return x.fromTerm(r, rt), rt
}

func (x *Exec) store(st *State, p *Ptr, v Value) {
	switch {
	case p.Cell != nil:
		if len(p.Path) == 0 {
			st.cells[p.Cell] = v
			return
		}
		old, ok := st.cells[p.Cell].(*Term)
		if !ok {
			x.unsupported("path store into non-term cell")
		}
		_, et := x.navigate(old, p.Cell.Typ, p.Path)
		nv := x.update(old, p.Cell.Typ, p.Path, x.toTerm(st, v, et))
		st.cells[p.Cell] = x.define(st, p.Cell.Name, nv)
		return
	case p.Global != nil:
		name := x.globalName(p.Global)
		gt := p.Global.Type().(*types.Pointer).Elem()
		oldV, _ := x.load(st, &Ptr{Global: p.Global})
		old := x.toTerm(st, oldV, gt)
		_, et := x.navigate(old, gt, p.Path)
		nv := x.update(old, gt, p.Path, x.toTerm(st, v, et))
		heapSorts[name] = nv.Sort
		st.heap[name] = x.define(st, name, nv)
		return
	}
	if p.Ref == nil {
		x.unsupported("store through unknown pointer")
	}
	path := p.Path
	if stt, ss, ok := x.structOf(p.Elem); ok {
		if len(path) > 0 && !path[0].IsIndex {
			f := stt.Field(path[0].Field)
			fs := x.prog.sortOf(f.Type())
			name := heapFieldName(ss, f.Name())
			arr := x.heapGet(st, name, fs)
			cur := selectS(arr, p.Ref)
			_, et := x.navigate(cur, f.Type(), path[1:])
			nv := x.update(cur, f.Type(), path[1:], x.toTerm(st, v, et))
			x.heapSet(st, name, Store(arr, p.Ref, nv))
			return
		}
		// whole struct store
		tv := x.toTerm(st, v, p.Elem)
		for i := 0; i < stt.NumFields(); i++ {
			f := stt.Field(i)
			name := heapFieldName(ss, f.Name())
			arr := x.heapGet(st, name, x.prog.sortOf(f.Type()))
			x.heapSet(st, name, Store(arr, p.Ref, x.selField(tv, i)))
		}
		return
	}
	s := x.prog.sortOf(p.Elem)
	name := heapCellName(s)
	arr := x.heapGet(st, name, s)
	cur := selectS(arr, p.Ref)
	_, et := x.navigate(cur, p.Elem, path)
	nv := x.update(cur, p.Elem, path, x.toTerm(st, v, et))
	x.heapSet(st, name, Store(arr, p.Ref, nv))
}

// maps: heaps keyed by the map type
func (x *Exec) mapHeaps(mt *types.Map) (has, val, ln string, ks, vs Sort) {
	ks, vs = x.prog.sortOf(mt.Key()), x.prog.sortOf(mt.Elem())
	base := "M$" + sortMangle(ks) + "$" + sortMangle(vs)
	return base + "$has", base + "$val", base + "$len", ks, vs
}

func (x *Exec) mapHas(st *State, mt *types.Map, m *Term) *Term {
	has, _, _, ks, _ := x.mapHeaps(mt)
	return selectS(x.heapGet(st, has, ArraySort(ks, SBool)), m)
}
func (x *Exec) mapVal(st *State, mt *types.Map, m *Term) *Term {
	_, val, _, ks, vs := x.mapHeaps(mt)
	return selectS(x.heapGet(st, val, ArraySort(ks, vs)), m)
}
func (x *Exec) mapLen(st *State, mt *types.Map, m *Term) *Term {
	_, _, ln, _, _ := x.mapHeaps(mt)
	return selectS(x.heapGet(st, ln, SInt), m)
}

// mapLookup yields (value, ok). Missing keys give the zero value.
func (x *Exec) mapLookup(st *State, mt *types.Map, m, k *Term) (*Term, *Term) {
	ok := Select(x.mapHas(st, mt, m), k)
	v := Select(x.mapVal(st, mt, m), k)
	return Ite(ok, v, x.prog.zero(mt.Elem())), ok
}

func (x *Exec) mapUpdate(st *State, mt *types.Map, m, k, v *Term) {
	has, val, ln, ks, vs := x.mapHeaps(mt)
	hasArr := x.heapGet(st, has, ArraySort(ks, SBool))
	valArr := x.heapGet(st, val, ArraySort(ks, vs))
	lnArr := x.heapGet(st, ln, SInt)
	wasIn := Select(selectS(hasArr, m), k)
	x.heapSet(st, ln, Store(lnArr, m, Ite(wasIn, selectS(lnArr, m), Add(selectS(lnArr, m), IntLit(1)))))
	x.heapSet(st, has, Store(hasArr, m, Store(selectS(hasArr, m), k, True)))
	x.heapSet(st, val, Store(valArr, m, Store(selectS(valArr, m), k, v)))
}

// ---------------------------------------------------------------------------
// running a function

func (x *Exec) newCell(name string, t types.Type) *Cell {
	x.cellN++
	return &Cell{ID: x.cellN, Name: name, Typ: t}
}

func VerifyFunction(prog *Program, fn *ssa.Function, fc *FuncContract, sweep bool) (obs []*Obligation, rep *FuncReport) {
	x := &Exec{prog: prog, fn: fn, fc: fc, obs: map[string]*Obligation{}, maxPaths: 200000,
		safeOrd: map[ssa.Instruction]string{}, callOrd: map[ssa.Instruction]int{}, qualSite: map[ssa.Instruction]string{}, loopOrd: map[*ssa.BasicBlock]int{},
		abstr: map[string]bool{}, externsUsed: map[string]bool{}, sweep: sweep, opaquePtr: map[*Cell]*Term{}, fresh: map[string]bool{}, assertedSites: map[string]bool{}, elideCache: map[*ssa.BasicBlock]*ssa.BasicBlock{}}
	if fn.Pkg != nil {
		x.pkg = fn.Pkg.Pkg
	} else if fn.Parent() != nil && fn.Parent().Pkg != nil {
		x.pkg = fn.Parent().Pkg.Pkg
	}
	file, line, hash := prog.funcSource(fn)
	x.report = &FuncReport{Key: funcKey(fn), File: file, Line: line, SrcHash: hash}
	for _, b := range fn.Blocks {
		x.report.Instrs += len(b.Instrs)
	}
	rep = x.report
	defer func() {
		if r := recover(); r != nil {
			if u, ok := r.(unsupported); ok {
				x.report.OutOfReach = u.msg
				if x.curInstr != nil {
					x.report.OutOfReach += " at " + prog.Fset.Position(x.curInstr.Pos()).String() + " (" + x.curInstr.String() + ")"
				}
				obs = x.collect()
				return
			}
			panic(r)
		}
	}()
	x.number()
	x.numberGuards()
	x.run()
	obs = x.collect()
	return
}

func (x *Exec) collect() []*Obligation {
	if x.fc != nil && x.report.OutOfReach == "" {
		existing := map[string]bool{}
		for in, ord := range x.callOrd {
			if ci, ok := in.(ssa.CallInstruction); ok {
				existing[fmt.Sprintf("%s#%d", x.calleeName(ci.Common()), ord)] = true
				if q := x.qualSite[in]; q != "" {
					existing[q] = true
				}
			}
		}
		for site, cls := range x.fc.CallAsserts {
			if !existing[site] {
				for _, a := range cls {
					name := x.obName("assert", a.Label+"@"+site)
					if x.obs[name] == nil {
						x.obs[name] = &Obligation{Name: name, Fn: funcKey(x.fn), Kind: "assert", Label: a.Label, Clause: a.Text,
							Queries: []*Query{{U: x.prog.U, Goal: False}}, Traces: [][]string{{"call site " + site + " does not exist in the function"}}}
						x.obOrd = append(x.obOrd, name)
					}
				}
			}
		}
	}
	var out []*Obligation
	for _, n := range x.obOrd {
		out = append(out, x.obs[n])
	}
	x.report.Paths = x.paths
	for a := range x.abstr {
		x.report.Abstracted = append(x.report.Abstracted, a)
	}
	sort.Strings(x.report.Abstracted)
	for a := range x.externsUsed {
		x.report.Externs = append(x.report.Externs, a)
	}
	sort.Strings(x.report.Externs)
	return out
}

// number assigns stable ordinals to safety-relevant instructions, call sites and loops.
func (x *Exec) number() {
	counts := map[string]int{}
	calls := map[string]int{}
	for _, b := range x.fn.Blocks {
		for _, in := range b.Instrs {
			kind := ""
			switch v := in.(type) {
			case *ssa.IndexAddr, *ssa.Index:
				kind = "index"
			case *ssa.Lookup:
				if _, isMap := v.X.Type().Underlying().(*types.Map); !isMap {
					kind = "index"
				}
			case *ssa.Slice:
				kind = "slice"
			case *ssa.Panic:
				kind = "panic"
			case *ssa.TypeAssert:
				if !v.CommaOk {
					kind = "typeassert"
				}
			case *ssa.MapUpdate:
				kind = "nilmap"
			case *ssa.BinOp:
				if (v.Op == token.QUO || v.Op == token.REM) && isInteger(v.X.Type()) {
					kind = "div"
				}
			case *ssa.Send:
				kind = "send"
			}
			if kind != "" {
				counts[kind]++
				x.safeOrd[in] = fmt.Sprintf("%s#%d", kind, counts[kind])
			}
			if c, ok := in.(ssa.CallInstruction); ok {
				name := x.calleeName(c.Common())
				calls[name]++
				x.callOrd[in] = calls[name]
				if q := qualCalleeName(c.Common()); q != "" {
					calls[q]++
					x.qualSite[in] = fmt.Sprintf("%s#%d", q, calls[q])
				}
			}
		}
	}
	for i, h := range loopHeadersByIndex(x.fn) {
		x.loopOrd[h] = i + 1
		if os.Getenv("GOVC_DEBUG_LOOPS") != "" {
			line := 0
			for _, in := range h.Instrs {
				if in.Pos().IsValid() {
					line = x.prog.Fset.Position(in.Pos()).Line
					break
				}
			}
			if line == 0 {
				for _, s := range h.Succs {
					for _, in := range s.Instrs {
						if in.Pos().IsValid() && line == 0 {
							line = x.prog.Fset.Position(in.Pos()).Line
						}
					}
				}
			}
			fmt.Fprintf(os.Stderr, "loop #%d of %s: block %d (%s) near line %d\n", i+1, x.fn.Name(), h.Index, h.Comment, line)
		}
	}
}

func loopHeadersByIndex(fn *ssa.Function) []*ssa.BasicBlock {
	hs := map[*ssa.BasicBlock]bool{}
	for _, b := range fn.Blocks {
		for _, s := range b.Succs {
			if s.Dominates(b) {
				hs[s] = true
			}
		}
	}
	var out []*ssa.BasicBlock
	for _, b := range fn.Blocks {
		if hs[b] {
			out = append(out, b)
		}
	}
	return out
}

// qualCalleeName: "Recv.method" for a statically dispatched method call (receiver type name without package and
// pointer), "" otherwise. Lets a before_call clause tell sync.Mutex.Lock from wrappedMutex.Lock without depending on
// how many other calls named Lock the function contains.
func qualCalleeName(c *ssa.CallCommon) string {
	if c.IsInvoke() {
		return ""
	}
	f := c.StaticCallee()
	if f == nil {
		return ""
	}
	if f.Origin() != nil {
		f = f.Origin()
	}
	if f.Signature == nil || f.Signature.Recv() == nil {
		return ""
	}
	t := f.Signature.Recv().Type()
	if p, ok := t.(*types.Pointer); ok {
		t = p.Elem()
	}
	if n, ok := t.(*types.Named); ok {
		return n.Obj().Name() + "." + f.Name()
	}
	return ""
}

func (x *Exec) calleeName(c *ssa.CallCommon) string {
	if c.IsInvoke() {
		return c.Method.Name()
	}
	if f := c.StaticCallee(); f != nil {
		if f.Origin() != nil {
			return f.Origin().Name() // an instance of a generic function goes by the generic function's name
		}
		n := f.Name()
		return n
	}
	if b, ok := c.Value.(*ssa.Builtin); ok {
		return b.Name()
	}
	return "dyn"
}

func (x *Exec) run() {
	st := newState()
	fn := x.fn
	x.params = map[string]TV{}
	st.alloc = Const("alloc@pre", ArraySort(SInt, SBool))
	x.prog.U.AddFun(&FunDecl{Name: "alloc@pre", Ret: ArraySort(SInt, SBool)})
	var names []string
	if x.fc != nil {
		names = x.fc.Params
	}
	for i, p := range fn.Params {
		v := x.freshValue(st, "in."+p.Name(), p.Type())
		st.regs[p] = v
		if ptr, ok := v.(*Ptr); ok && ptr.Ref != nil {
			if comparedToNil(fn, p) {
				// the function itself tests this parameter against nil: it may be nil
				st.assume(Or(Eq(ptr.Ref, IntLit(0)), And(Gt(ptr.Ref, IntLit(0)), Select(st.alloc, ptr.Ref))), "nullable pointer parameter")
			} else {
				// receivers and pointer parameters are assumed non-nil (A-nonnil) and allocated
				st.assume(And(Gt(ptr.Ref, IntLit(0)), Select(st.alloc, ptr.Ref)), "pointer parameter non-nil")
			}
		}
		tv := TV{V: v, T: p.Type(), S: x.prog.sortOf(p.Type())}
		x.params[p.Name()] = tv
		if i < len(names) {
			x.params[names[i]] = tv
		}
	}
	var fvRefs []*Term
	for _, fv := range fn.FreeVars {
		v := x.freshValue(st, "fv."+fv.Name(), fv.Type())
		st.regs[fv] = v
		if ptr, ok := v.(*Ptr); ok && ptr.Ref != nil {
			st.assume(And(Gt(ptr.Ref, IntLit(0)), Select(st.alloc, ptr.Ref)), "captured variable cell")
			for _, o := range fvRefs {
				st.assume(Not(Eq(o, ptr.Ref)), "captured cells are distinct")
			}
			fvRefs = append(fvRefs, ptr.Ref)
		}
	}
	x.entry = st.clone()
	if x.fc != nil {
		for _, ln := range x.fc.Uses {
			li, err := x.prog.LemmaStatement(ln)
			if err != nil {
				x.unsupported("%v", err)
			}
			x.lemmas = append(x.lemmas, li)
		}
		x.defs = x.instantiateDefs(st, x.fc, func() *EvalCtx { return x.ctxFor(x.entry, x.entry, nil) })
		ctx := x.ctxFor(st, x.entry, nil)
		for _, c := range x.fc.Requires {
			t := x.evalBool(ctx, c)
			st.assume(t, "requires ["+c.Label+"]")
		}
		for _, c := range x.fc.EntryAssumes {
			st.assume(x.evalBool(ctx, c), "entry_assume ["+c.Label+"] (thread-local ghost definition)")
		}
		for _, c := range x.fc.CapturedRequires {
			st.assume(x.evalBool(ctx, c), "captured_requires ["+c.Label+"] (proved where the closure is created; assumed stable until it runs)")
			x.externsUsed["captured_requires ["+c.Label+"] of "+shortFuncName(funcKey(fn))+": proved at the closure's creation site, assumed to still hold when the closure runs"] = true
		}
	}
	x.entry = st.clone()
	if len(fn.Blocks) == 0 {
		x.unsupported("function has no body")
	}
	x.runBlock(st, fn.Blocks[0])
}

// comparedToNil: does fn compare parameter p (or a copy of it held in a local variable) with nil?
func comparedToNil(fn *ssa.Function, p *ssa.Parameter) bool {
	// values that are (copies of) the parameter: the parameter itself, loads of cells it was stored into
	cells := map[ssa.Value]bool{}
	for changed := true; changed; {
		changed = false
		for _, b := range fn.Blocks {
			for _, in := range b.Instrs {
				if st, ok := in.(*ssa.Store); ok {
					if isCopyOf(st.Val, p, cells) && !cells[st.Addr] {
						if _, isAlloc := st.Addr.(*ssa.Alloc); isAlloc {
							cells[st.Addr] = true
							changed = true
						}
					}
				}
			}
		}
	}
	for _, b := range fn.Blocks {
		for _, in := range b.Instrs {
			if bo, ok := in.(*ssa.BinOp); ok && (bo.Op == token.EQL || bo.Op == token.NEQ) {
				if isNilConst(bo.Y) && isCopyOf(bo.X, p, cells) || isNilConst(bo.X) && isCopyOf(bo.Y, p, cells) {
					return true
				}
			}
		}
	}
	return false
}

func isCopyOf(v ssa.Value, p *ssa.Parameter, cells map[ssa.Value]bool) bool {
	if v == ssa.Value(p) {
		return true
	}
	if u, ok := v.(*ssa.UnOp); ok && u.Op == token.MUL && cells[u.X] {
		return true
	}
	return false
}

type pathEnd struct{}

func (x *Exec) runBlock(st *State, b *ssa.BasicBlock) {
	for {
		// loop header handling
		if ord, isHeader := x.loopOrd[b]; isHeader {
			if x.atLoopHeader(st, b, ord) {
				x.paths++
				return
			}
		}
		var next *ssa.BasicBlock
		for _, in := range b.Instrs {
			x.curInstr = in
			switch v := in.(type) {
			case *ssa.If:
				if j := x.elidableIf(b); j != nil {
					// both arms are effect-free and meet at j: no fork, the condition is not assumed either way
					next = j
					break
				}
				c := x.toTerm(st, x.get(st, v.Cond), types.Typ[types.Bool])
				switch {
				case isTrue(c):
					next = b.Succs[0]
				case isFalse(c):
					next = b.Succs[1]
				default:
					other := st.clone()
					other.assume(Not(c), "branch")
					other.pred = b
					other.trace = append(other.trace, x.where(in)+": false")
					x.checkPathBudget()
					x.runBlock(other, b.Succs[1])
					st.assume(c, "branch")
					st.trace = append(st.trace, x.where(in)+": true")
					next = b.Succs[0]
				}
			case *ssa.Jump:
				next = b.Succs[0]
			case *ssa.Return:
				x.atReturn(st, v)
				x.paths++
				return
			case *ssa.Panic:
				if x.fc == nil || !x.fc.MayPanic {
					if x.sweep || x.fc != nil {
						x.oblige(st, "safe", x.safeOrd[in], False, "explicit panic unreachable")
					}
				}
				x.paths++
				return
			default:
				forks := x.execInstr(st, in)
				if st.dead {
					x.paths++
					return
				}
				for _, f := range forks {
					// forks continue from the *next* instruction of this block
					x.checkPathBudget()
					x.resume(f, b, in)
				}
			}
		}
		if next == nil {
			return
		}
		st.pred = b
		b = next
	}
}

// resume continues execution of state st after instruction `after` in block b.
func (x *Exec) resume(st *State, b *ssa.BasicBlock, after ssa.Instruction) {
	started := false
	for _, in := range b.Instrs {
		if !started {
			if in == after {
				started = true
			}
			continue
		}
		x.curInstr = in
		switch v := in.(type) {
		case *ssa.If:
			if j := x.elidableIf(b); j != nil {
				st.pred = b
				x.runBlock(st, j)
				return
			}
			c := x.toTerm(st, x.get(st, v.Cond), types.Typ[types.Bool])
			if !isFalse(c) {
				a := st.clone()
				a.assume(c, "branch")
				a.pred = b
				a.trace = append(a.trace, x.where(in)+": true")
				x.runBlock(a, b.Succs[0])
			}
			if !isTrue(c) {
				o := st.clone()
				o.assume(Not(c), "branch")
				o.pred = b
				o.trace = append(o.trace, x.where(in)+": false")
				x.runBlock(o, b.Succs[1])
			}
			return
		case *ssa.Jump:
			st.pred = b
			x.runBlock(st, b.Succs[0])
			return
		case *ssa.Return:
			x.atReturn(st, v)
			x.paths++
			return
		case *ssa.Panic:
			if x.fc == nil || !x.fc.MayPanic {
				x.oblige(st, "safe", x.safeOrd[in], False, "explicit panic unreachable")
			}
			x.paths++
			return
		default:
			forks := x.execInstr(st, in)
			if st.dead {
				x.paths++
				return
			}
			for _, f := range forks {
				x.checkPathBudget()
				x.resume(f, b, in)
			}
		}
	}
}

// elidableIf: if block b ends in an If whose arms are effect-free straight-line blocks meeting at one join block,
// return that join block. "Effect-free": only loads, address computations, interface boxing, local varargs arrays and
// calls to functions without effect on modelled state, without preconditions and without safety obligations; no value
// defined in an arm is used outside it.
func (x *Exec) elidableIf(b *ssa.BasicBlock) *ssa.BasicBlock {
	if v, ok := x.elideCache[b]; ok {
		return v
	}
	var res *ssa.BasicBlock
	defer func() { x.elideCache[b] = res }()
	if len(b.Succs) != 2 {
		return nil
	}
	t, f := b.Succs[0], b.Succs[1]
	if _, isHeader := x.loopOrd[t]; isHeader {
		return nil
	}
	if _, isHeader := x.loopOrd[f]; isHeader {
		return nil
	}
	armTo := func(arm *ssa.BasicBlock) *ssa.BasicBlock {
		if len(arm.Preds) != 1 || len(arm.Succs) != 1 {
			return nil
		}
		if !x.effectFreeBlock(arm) {
			return nil
		}
		return arm.Succs[0]
	}
	switch {
	case t == f:
		res = t
	case armTo(t) == f && armTo(t) != nil:
		res = f
	case armTo(f) == t && armTo(f) != nil:
		res = t
	case armTo(t) != nil && armTo(t) == armTo(f):
		res = armTo(t)
	}
	if res != nil {
		if _, isHeader := x.loopOrd[res]; isHeader {
			res = nil
		}
	}
	return res
}

func (x *Exec) effectFreeBlock(arm *ssa.BasicBlock) (ok bool) {
	local := map[ssa.Value]bool{}
	var culprit ssa.Instruction
	if os.Getenv("GOVC_DEBUG") != "" {
		defer func() {
			if !ok && culprit != nil {
				fmt.Fprintf(os.Stderr, "not effect-free: %s block %d: %s (%T)\n", x.fn.Name(), arm.Index, culprit, culprit)
			}
		}()
	}
	for _, in := range arm.Instrs {
		culprit = in
		if _, has := x.safeOrd[in]; has {
			switch ia := in.(type) {
			case *ssa.IndexAddr:
				// index into a local varargs array with a constant index is fine
				if a, ok := ia.X.(*ssa.Alloc); !ok || !local[a] {
					return false
				}
				if _, isConst := ia.Index.(*ssa.Const); !isConst {
					return false
				}
			case *ssa.Slice:
				// t[:] of a local varargs array
				if a, ok := ia.X.(*ssa.Alloc); !ok || !local[a] || ia.Low != nil || ia.High != nil {
					return false
				}
			default:
				return false
			}
		}
		switch v := in.(type) {
		case *ssa.DebugRef, *ssa.Jump:
		case *ssa.Alloc:
			if v.Heap && !onlyIndexedAndSliced(v) {
				return false
			}
			local[v] = true
		case *ssa.Store:
			root, ok := rootAlloc(v.Addr)
			if !ok || !local[root] {
				return false
			}
		case *ssa.UnOp:
			if v.Op == token.ARROW {
				return false
			}
			if x.guardOrd[in] != "" {
				return false
			}
		case *ssa.FieldAddr, *ssa.Field, *ssa.IndexAddr, *ssa.MakeInterface, *ssa.Slice, *ssa.BinOp, *ssa.Convert, *ssa.ChangeType, *ssa.ChangeInterface, *ssa.Extract, *ssa.Lookup:
			if x.guardOrd[in] != "" {
				return false
			}
		case *ssa.Call:
			if !x.effectFreeCall(v.Common()) {
				return false
			}
		default:
			return false
		}
		if val, ok := in.(ssa.Value); ok {
			if refs := val.Referrers(); refs != nil {
				for _, r := range *refs {
					if r.Block() != arm {
						return false
					}
				}
			}
		}
	}
	return true
}

func (x *Exec) effectFreeCall(c *ssa.CallCommon) bool {
	// a callee whose contract promises something (e.g. "does not return") is never skipped
	if f := c.StaticCallee(); f != nil {
		key := funcKey(f)
		if f.Origin() != nil {
			key = funcKey(f.Origin())
		}
		if fc, ok := x.prog.Contracts[key]; ok && (len(fc.Ensures) > 0 || len(fc.Requires) > 0 || len(fc.GhostSets) > 0) {
			return false
		}
	}
	if c.IsInvoke() {
		recvT := c.Value.Type()
		if named, ok := recvT.(*types.Named); ok && named.Obj().Pkg() != nil && x.prog.Spec.PkgFrames[named.Obj().Pkg().Path()] {
			return true
		}
		if fc, ok := x.prog.Contracts[ifaceMethodKey(recvT, c.Method.Name())]; ok {
			return fc.Pure && len(fc.Requires) == 0 && len(fc.GhostSets) == 0
		}
		return false
	}
	if b, ok := c.Value.(*ssa.Builtin); ok {
		switch b.Name() {
		case "len", "cap":
			return true
		}
		return false
	}
	f := c.StaticCallee()
	if f == nil {
		return false
	}
	key := funcKey(f)
	if f.Origin() != nil {
		key = funcKey(f.Origin())
	}
	switch key {
	case "fmt.Sprintf", "fmt.Errorf", "errors.New":
		return true
	}
	if pk := fnPkgPath(f); pk != "" && x.prog.Spec.PkgFrames[pk] {
		return true
	}
	// methods of types declared in an effect-free package
	if recv := f.Signature.Recv(); recv != nil {
		t := recv.Type()
		if pt, ok := t.(*types.Pointer); ok {
			t = pt.Elem()
		}
		if named, ok := t.(*types.Named); ok && named.Obj().Pkg() != nil && x.prog.Spec.PkgFrames[named.Obj().Pkg().Path()] {
			return true
		}
	}
	if fc, ok := x.prog.Contracts[key]; ok {
		return fc.Pure && len(fc.Requires) == 0 && len(fc.GhostSets) == 0 && len(fc.Allocates) == 0
	}
	return false
}

func (x *Exec) checkPathBudget() {
	if x.paths > x.maxPaths {
		x.unsupported("path budget exceeded (%d paths)", x.maxPaths)
	}
}

func (x *Exec) where(in ssa.Instruction) string {
	if in.Pos().IsValid() {
		p := x.prog.Fset.Position(in.Pos())
		return fmt.Sprintf("%d", p.Line)
	}
	return "?"
}

// ---------------------------------------------------------------------------
// loops

// atLoopHeader returns true if the path ends here (back edge).
func (x *Exec) atLoopHeader(st *State, h *ssa.BasicBlock, ord int) bool {
	var lc *LoopContract
	if x.fc != nil {
		lc = x.fc.Loops[ord]
	}
	x.curInstr = h.Instrs[0]
	check := func(kind string) {
		if lc == nil {
			return
		}
		ctx := x.ctxFor(st, x.entry, nil)
		ctx.loopHeader = h
		ctx.loopEntrySt = st.loopEntry[h]
		if ctx.loopEntrySt == nil {
			ctx.loopEntrySt = st // the loop is being entered: its entry state is the current one
		}
		for _, c := range lc.Invariants {
			t := x.evalBool(ctx, c)
			x.oblige(st, kind, fmt.Sprintf("loop%d.%s", ord, c.Label), t, c.Text)
		}
	}
	if st.inLoop[h] {
		check("inv_step")
		// the function's frame is an implicit invariant of every loop
		for _, g := range x.frameGoals(st, x.loopHeapNames[h]) {
			x.oblige(st, "inv_step", fmt.Sprintf("loop%d.frame.%s", ord, g.name), g.goal, "loop preserves the function's modifies clause")
		}
		return true
	}
	check("inv_entry")
	if lc != nil && lc.Completes != "" {
		// `completes`: registered here (trivially true) so that the claim exists on every run; a call inside the loop body
		// of a function that does not return adds a failing query under its path condition (see applyContract)
		if x.loopOrdOf == nil {
			x.loopOrdOf = map[*ssa.BasicBlock]int{}
		}
		x.loopOrdOf[h] = ord
		x.oblige(st, "completes", fmt.Sprintf("loop%d.%s", ord, lc.Completes), True, "no iteration of the loop ends the process")
	}
	if st.loopEntry == nil {
		st.loopEntry = map[*ssa.BasicBlock]*State{}
	}
	st.loopEntry[h] = st.clone()
	// havoc everything the loop may modify
	x.havocLoop(st, h)
	st.inLoop[h] = true
	for _, g := range x.frameGoals(st, x.loopHeapNames[h]) {
		st.assume(g.goal, "frame invariant of loop "+fmt.Sprint(ord)+" for "+g.name)
	}
	x.rangeIndexFacts(st, h)
	if lc != nil {
		ctx := x.ctxFor(st, x.entry, nil)
		ctx.loopHeader = h
		ctx.loopEntrySt = st.loopEntry[h]
		for _, c := range lc.Invariants {
			st.assume(x.evalBool(ctx, c), fmt.Sprintf("invariant loop%d [%s]", ord, c.Label))
		}
	}
	return false
}

// rangeIndexFacts: go/ssa lowers `for i, v := range slice` to a hidden index cell (rangeindex) that starts at -1 and is
// incremented at the loop header, compared against the length computed before the loop. At the header, before the
// increment, -1 <= index < max(len,0) ... more precisely index >= -1 and index < len whenever len >= 0 (always).
func (x *Exec) rangeIndexFacts(st *State, h *ssa.BasicBlock) {
	if len(h.Instrs) < 5 {
		return
	}
	ld, ok := h.Instrs[0].(*ssa.UnOp)
	if !ok || ld.Op != token.MUL {
		return
	}
	al, ok := ld.X.(*ssa.Alloc)
	if !ok || al.Comment != "rangeindex" {
		return
	}
	add, ok := h.Instrs[1].(*ssa.BinOp)
	if !ok || add.Op != token.ADD || add.X != ld {
		return
	}
	cmp, ok := h.Instrs[3].(*ssa.BinOp)
	if !ok || cmp.Op != token.LSS || cmp.X != add {
		return
	}
	cell := st.allocOf[al]
	if cell == nil {
		return
	}
	idx, ok := st.cells[cell].(*Term)
	if !ok {
		return
	}
	lnV, ok := st.regs[cmp.Y]
	if !ok {
		if c, isC := cmp.Y.(*ssa.Const); isC {
			lnV = x.constValue(st, c)
		} else {
			return
		}
	}
	ln, ok := lnV.(*Term)
	if !ok {
		return
	}
	st.assume(And(Ge(idx, IntLit(-1)), Lt(idx, ln)), "range index invariant (structural: go/ssa rangeindex lowering)")
}

func (x *Exec) havocLoop(st *State, h *ssa.BasicBlock) {
	blocks := loopBlocks(h)
	frame := NewFrameSet()
	x.loopFresh = NewFrameSet()
	defer func() { x.loopFresh = nil }()
	cells := map[*ssa.Alloc]bool{}
	rangeIters := map[*ssa.Range]bool{}
	for b := range blocks {
		for _, in := range b.Instrs {
			if _, isGo := in.(*ssa.Go); isGo {
				// an earlier iteration may already have started a goroutine
				st.shared = true
			}
			switch v := in.(type) {
			case *ssa.Store:
				x.staticWrite(v.Addr, blocks, cells, frame)
			case *ssa.MapUpdate:
				if mt, ok := v.Map.Type().Underlying().(*types.Map); ok {
					has, val, ln, _, _ := x.mapHeaps(mt)
					frame.Names[has], frame.Names[val], frame.Names[ln] = true, true, true
				}
			case *ssa.Next:
				if r, ok := v.Iter.(*ssa.Range); ok {
					rangeIters[r] = true
				}
			case ssa.CallInstruction:
				x.staticCallFrame(v, blocks, cells, frame)
			}
		}
	}
	for a := range cells {
		c := st.allocOf[a]
		if c == nil {
			continue
		}
		st.cells[c] = x.freshValue(st, "loop."+c.Name, c.Typ)
	}
	if x.loopHeapNames == nil {
		x.loopHeapNames = map[*ssa.BasicBlock]map[string]bool{}
	}
	hn := map[string]bool{}
	if frame.All {
		for n := range heapSorts {
			hn[n] = true
		}
	}
	for n := range frame.Names {
		hn[n] = true
	}
	// heaps written only through cells allocated inside the loop: havoc, but cells allocated at loop entry keep their value
	var freshOnly []string
	for n := range x.loopFresh.Names {
		hn[n] = true
		if !frame.All && !frame.Names[n] {
			freshOnly = append(freshOnly, n)
		}
	}
	sort.Strings(freshOnly)
	x.loopHeapNames[h] = hn
	x.applyFrame(st, frame)
	for _, n := range freshOnly {
		hs, ok := heapSorts[n]
		if !ok {
			continue
		}
		old, have := st.heap[n]
		if !have {
			old = Const(n+"@pre", hs)
			x.prog.U.AddFun(&FunDecl{Name: n + "@pre", Ret: hs})
		}
		x.havocHeap(st, n)
		r := Const("r!lf", SInt)
		st.assume(Forall([]BVar{{"r!lf", SInt}}, Implies(Select(st.alloc, r), Eq(Select(st.heap[n], r), Select(old, r)))), "cells of "+n+" allocated before the loop are not written by it (the loop stores only to cells it allocates)")
	}
	// earlier iterations may have allocated objects: at the loop head the set of allocated objects is some superset of
	// the set at loop entry (invariants can say which objects are allocated with allocated(x))
	{
		oldAlloc := st.alloc
		na := x.freshConst(st, "alloc!loop", ArraySort(SInt, SBool))
		r := Const("r!la", SInt)
		st.assume(Forall([]BVar{{"r!la", SInt}}, Implies(Select(oldAlloc, r), Select(na, r))), "objects allocated before the loop stay allocated")
		st.alloc = na
	}
	for r := range rangeIters {
		if it, ok := st.regs[r].(*RangeIter); ok {
			old := st.ranges[it.ID]
			nv := x.freshConst(st, "iter", old.Sort)
			if it.Kind == "string" {
				st.assume(Ge(nv, IntLit(0)), "")
			}
			st.ranges[it.ID] = nv
		}
	}
}

// staticWrite records what a store through addr may modify.
func (x *Exec) staticWrite(addr ssa.Value, loop map[*ssa.BasicBlock]bool, cells map[*ssa.Alloc]bool, frame *FrameSet) {
	switch a := addr.(type) {
	case *ssa.Alloc:
		if a.Heap && !onlyIndexedAndSliced(a) {
			if loop != nil && loop[a.Block()] && x.loopFresh != nil {
				// a cell allocated inside the loop body is fresh in every iteration: a store to it cannot touch a cell
				// that existed at loop entry
				x.prog.addPointeeWrites(x.loopFresh, a.Type().(*types.Pointer).Elem(), -1)
				return
			}
			x.prog.addPointeeWrites(frame, a.Type().(*types.Pointer).Elem(), -1)
			return
		}
		if loop == nil || !loop[a.Block()] {
			cells[a] = true
		}
	case *ssa.FieldAddr:
		// root?
		if root, ok := rootAlloc(a.X); ok && (!root.Heap || onlyIndexedAndSliced(root)) {
			if loop == nil || !loop[root.Block()] {
				cells[root] = true
			}
			return
		}
		pt := a.X.Type().Underlying().(*types.Pointer).Elem()
		x.prog.addPointeeWrites(frame, pt, a.Field)
	case *ssa.IndexAddr:
		if root, ok := rootAlloc(a.X); ok && (!root.Heap || onlyIndexedAndSliced(root)) {
			if loop == nil || !loop[root.Block()] {
				cells[root] = true
			}
			return
		}
		// element of a slice loaded from somewhere: find the origin of the slice value
		if u, ok := a.X.(*ssa.UnOp); ok && u.Op == token.MUL {
			x.staticWrite(u.X, loop, cells, frame)
			return
		}
		if _, ok := a.X.Type().Underlying().(*types.Pointer); ok {
			x.prog.addPointeeWrites(frame, a.X.Type().Underlying().(*types.Pointer).Elem(), -1)
			return
		}
		frame.All = true
	case *ssa.Global:
		frame.Names[x.globalName(a)] = true
	case *ssa.FreeVar, *ssa.Parameter, *ssa.UnOp, *ssa.Call, *ssa.Extract, *ssa.Phi, *ssa.Lookup, *ssa.TypeAssert:
		if pt, ok := addr.Type().Underlying().(*types.Pointer); ok {
			x.prog.addPointeeWrites(frame, pt.Elem(), -1)
			return
		}
		frame.All = true
	default:
		frame.All = true
	}
}

func rootAlloc(v ssa.Value) (*ssa.Alloc, bool) {
	for {
		switch a := v.(type) {
		case *ssa.Alloc:
			return a, true
		case *ssa.FieldAddr:
			v = a.X
		case *ssa.IndexAddr:
			v = a.X
		default:
			return nil, false
		}
	}
}

// ---------------------------------------------------------------------------
// return: postconditions and frame

func (x *Exec) atReturn(st *State, r *ssa.Return) {
	x.lockBalance(st, r)
	if x.fc == nil {
		return
	}
	// vacuity guard: some return path must be feasible under the precondition (cover query, expected sat)
	if x.covers < 6 {
		x.covers++
		name := x.obName("cover", "return")
		ob := x.obs[name]
		if ob == nil {
			ob = &Obligation{Name: name, Fn: funcKey(x.fn), Kind: "cover", Label: "return", Clause: "some return path is feasible under the precondition (vacuity guard)"}
			x.obs[name] = ob
			x.obOrd = append(x.obOrd, name)
		}
		ob.Queries = append(ob.Queries, &Query{U: x.prog.U, Lines: st.allLines(), Goal: nil, Reveal: x.reveal(), Lemmas: x.lemmas, TimeoutMs: 1500})
		ob.Traces = append(ob.Traces, nil)
	}
	res := map[string]TV{}
	sig := x.fn.Signature
	for i, v := range r.Results {
		val := x.get(st, v)
		t := sig.Results().At(i).Type()
		tv := TV{V: val, T: t, S: x.prog.sortOf(t)}
		if i < len(x.fc.Results) {
			res[x.fc.Results[i]] = tv
		}
		if n := sig.Results().At(i).Name(); n != "" {
			if _, dup := res[n]; !dup {
				res[n] = tv
			}
		}
		if len(r.Results) == 1 {
			res["result"] = tv
		}
	}
	ctx := x.ctxFor(st, x.entry, res)
	ctx.atReturn = true
	ctx.shadow = map[string]bool{}
	for k := range res {
		ctx.shadow[k] = true
	}
	// ghost assignments of the function's own contract happen at return
	x.applyGhostSets(st, x.fc, ctx)
	for _, c := range x.fc.Ensures {
		t := x.evalBool(ctx, c)
		x.oblige(st, "ensures", c.Label, t, c.Text)
	}
	x.checkFrame(st)
}

// ---------------------------------------------------------------------------
// instruction semantics

func (x *Exec) get(st *State, v ssa.Value) Value {
	switch c := v.(type) {
	case *ssa.Const:
		return x.constValue(st, c)
	case *ssa.Function:
		return &FuncVal{Fn: c}
	case *ssa.Builtin:
		return &FuncVal{Builtin: c}
	case *ssa.Global:
		return &Ptr{Global: c, Elem: c.Type().(*types.Pointer).Elem()}
	}
	if r, ok := st.regs[v]; ok {
		return r
	}
	x.unsupported("value %s (%T) has no binding", v.Name(), v)
	return nil
}

func (x *Exec) constValue(st *State, c *ssa.Const) Value {
	t := c.Type()
	if c.Value == nil {
		// zero value / nil
		switch u := t.Underlying().(type) {
		case *types.Pointer:
			return &Ptr{Ref: IntLit(0), Elem: u.Elem()}
		case *types.Signature:
			return &FuncVal{T: IntLit(0), Sig: t}
		case *types.Tuple:
			return Tuple{}
		}
		return x.prog.zero(t)
	}
	switch c.Value.Kind() {
	case constant.Bool:
		return BoolLit(constant.BoolVal(c.Value))
	case constant.String:
		return StrLit(constant.StringVal(c.Value))
	case constant.Int:
		if b, ok := t.Underlying().(*types.Basic); ok && b.Info()&types.IsFloat != 0 {
			return x.floatConst(c.Value.String())
		}
		if i, ok := constant.Int64Val(c.Value); ok {
			return IntLit(i)
		}
		if u, ok := constant.Uint64Val(c.Value); ok {
			_ = u
			return SymApp("bigconst$"+sanitize(c.Value.String()), SInt)
		}
	case constant.Float, constant.Complex:
		return x.floatConst(c.Value.String())
	}
	x.unsupported("constant %s", c)
	return nil
}

func (x *Exec) floatConst(s string) *Term {
	name := "float$" + sanitize(s)
	x.prog.U.AddFun(&FunDecl{Name: name, Ret: SFloat})
	return Const(name, SFloat)
}

func (x *Exec) safeOb(st *State, in ssa.Instruction, goal *Term, what string) {
	if !x.sweep && x.fc == nil {
		return
	}
	lbl := x.safeOrd[in]
	if lbl == "" {
		lbl = "misc"
	}
	x.oblige(st, "safe", lbl, goal, what)
}

func (x *Exec) execInstr(st *State, in ssa.Instruction) (forks []*State) {
	switch v := in.(type) {
	case *ssa.DebugRef:
		return
	case *ssa.Alloc:
		elem := v.Type().(*types.Pointer).Elem()
		if !v.Heap || onlyIndexedAndSliced(v) {
			c := x.newCell(v.Comment, elem)
			if c.Name == "" {
				c.Name = v.Name()
			}
			st.allocOf[v] = c
			if _, isTup := elem.(*types.Tuple); isTup || strings.HasPrefix(elem.String(), "$ssa") {
				st.cells[c] = IntLit(0)
			} else {
				st.cells[c] = x.zeroValue(elem)
			}
			st.regs[v] = &Ptr{Cell: c, Elem: elem}
			return
		}
		p := x.newObject(st, v.Comment, elem)
		x.store(st, p, x.zeroValue(elem))
		st.regs[v] = p
	case *ssa.Store:
		addr, ok := x.get(st, v.Addr).(*Ptr)
		if !ok {
			x.unsupported("store through non-pointer value")
		}
		x.guardAccess(st, in, addr, true)
		x.store(st, addr, x.get(st, v.Val))
	case *ssa.UnOp:
		x.unop(st, v)
	case *ssa.BinOp:
		st.regs[v] = x.binop(st, v)
	case *ssa.FieldAddr:
		p, ok := x.get(st, v.X).(*Ptr)
		if !ok {
			x.unsupported("fieldaddr on non-pointer")
		}
		st.regs[v] = p.extend(PathElem{Field: v.Field, Container: p.Elem})
	case *ssa.Field:
		t := x.toTerm(st, x.get(st, v.X), v.X.Type())
		if _, ok := x.prog.U.Datatypes[t.Sort]; !ok {
			st.regs[v] = x.freshValue(st, "opaquefield", v.Type())
			return
		}
		st.regs[v] = x.fromTerm(x.selField(t, v.Field), v.Type())
	case *ssa.IndexAddr:
		x.indexAddr(st, v)
	case *ssa.Index:
		xv := x.toTerm(st, x.get(st, v.X), v.X.Type())
		iv := x.toTerm(st, x.get(st, v.Index), v.Index.Type())
		switch u := v.X.Type().Underlying().(type) {
		case *types.Array:
			x.safeOb(st, in, And(Ge(iv, IntLit(0)), Lt(iv, IntLit(u.Len()))), "array index in range")
			st.regs[v] = x.fromTerm(selectS(xv, iv), v.Type())
		default:
			if xv.Sort == SString {
				x.safeOb(st, in, And(Ge(iv, IntLit(0)), Lt(iv, StrLen(xv))), "string index in range")
				st.regs[v] = App("str.to_code", SInt, App("str.at", SString, xv, iv))
			} else {
				x.unsupported("index on %s", v.X.Type())
			}
		}
	case *ssa.Lookup:
		x.lookup(st, v)
	case *ssa.Slice:
		x.sliceOp(st, v)
	case *ssa.MakeSlice:
		ln := x.toTerm(st, x.get(st, v.Len), types.Typ[types.Int])
		s := x.prog.sortOf(v.Type())
		es := x.prog.sortOf(v.Type().Underlying().(*types.Slice).Elem())
		x.safeOb(st, in, Ge(ln, IntLit(0)), "makeslice: len >= 0")
		st.regs[v] = x.mkSlice(s, x.prog.zeroOfSort(ArraySort(SInt, es)), ln)
	case *ssa.MakeMap:
		mt := v.Type().Underlying().(*types.Map)
		ref := x.newRef(st, "map")
		has, _, ln, ks, _ := x.mapHeaps(mt)
		x.heapSet(st, has, Store(x.heapGet(st, has, ArraySort(ks, SBool)), ref, x.prog.zeroOfSort(ArraySort(ks, SBool))))
		x.heapSet(st, ln, Store(x.heapGet(st, ln, SInt), ref, IntLit(0)))
		st.regs[v] = ref
	case *ssa.MakeChan:
		ref := x.newRef(st, "chan")
		capT := x.toTerm(st, x.get(st, v.Size), types.Typ[types.Int])
		x.heapSet(st, "C$cap", Store(x.heapGet(st, "C$cap", SInt), ref, capT))
		x.heapSet(st, "C$sent", Store(x.heapGet(st, "C$sent", SInt), ref, IntLit(0)))
		x.heapSet(st, "C$closed", Store(x.heapGet(st, "C$closed", SBool), ref, False))
		st.regs[v] = ref
	case *ssa.MakeInterface:
		st.regs[v] = x.makeInterface(st, x.get(st, v.X), v.X.Type())
	case *ssa.MakeClosure:
		fv := &FuncVal{Fn: v.Fn.(*ssa.Function), Sig: v.Type()}
		for _, b := range v.Bindings {
			fv.Bind = append(fv.Bind, x.get(st, b))
		}
		st.regs[v] = fv
		x.closureCreated(st, in, fv)
	case *ssa.MapUpdate:
		mt := v.Map.Type().Underlying().(*types.Map)
		m := x.toTerm(st, x.get(st, v.Map), v.Map.Type())
		x.safeOb(st, in, Not(Eq(m, IntLit(0))), "assignment to entry in nil map")
		x.guardMapAccess(st, in, v.Map, true)
		k := x.toTerm(st, x.get(st, v.Key), mt.Key())
		val := x.toTerm(st, x.get(st, v.Value), mt.Elem())
		x.mapUpdate(st, mt, m, k, val)
	case *ssa.Call:
		res, fk := x.call(st, in, v.Common())
		if res != nil {
			st.regs[v] = res
		}
		if len(x.pendingForks) > 0 {
			fk = append(fk, x.pendingForks...)
			x.pendingForks = nil
		}
		return fk
	case *ssa.Go:
		x.goStmt(st, v)
	case *ssa.Defer:
		d := deferred{call: v.Common(), in: in}
		for _, a := range v.Common().Args {
			d.args = append(d.args, x.get(st, a))
		}
		if !v.Common().IsInvoke() {
			d.fn = x.get(st, v.Common().Value)
		} else {
			d.fn = x.get(st, v.Common().Value)
		}
		st.defers = append(st.defers, d)
	case *ssa.RunDefers:
		for len(st.defers) > 0 {
			d := st.defers[len(st.defers)-1]
			st.defers = st.defers[:len(st.defers)-1]
			x.callWith(st, d.in, d.call, d.fn, d.args)
		}
	case *ssa.Extract:
		tup, ok := x.get(st, v.Tuple).(Tuple)
		if !ok {
			x.unsupported("extract from non-tuple")
		}
		if v.Index >= len(tup) {
			x.unsupported("extract index out of range")
		}
		st.regs[v] = tup[v.Index]
	case *ssa.Phi:
		found := false
		for i, p := range v.Block().Preds {
			if p == st.pred {
				st.regs[v] = x.get(st, v.Edges[i])
				found = true
				break
			}
		}
		if !found {
			x.unsupported("phi: unknown predecessor")
		}
	case *ssa.TypeAssert:
		return x.typeAssert(st, v)
	case *ssa.ChangeType:
		st.regs[v] = x.get(st, v.X)
		if o, ok := st.origin[v.X]; ok {
			st.origin[v] = o
		}
	case *ssa.ChangeInterface:
		st.regs[v] = x.get(st, v.X)
	case *ssa.Convert:
		x.convert(st, v)
	case *ssa.MultiConvert:
		st.regs[v] = x.freshValue(st, "multiconv", v.Type())
	case *ssa.SliceToArrayPointer:
		x.unsupported("slice to array pointer")
	case *ssa.Range:
		st.rangeN++
		it := &RangeIter{Instr: v, X: x.get(st, v.X), ID: st.rangeN}
		switch u := v.X.Type().Underlying().(type) {
		case *types.Map:
			it.Kind = "map"
			ks := x.prog.sortOf(u.Key())
			st.ranges[it.ID] = x.prog.zeroOfSort(ArraySort(ks, SBool))
		default:
			it.Kind = "string"
			st.ranges[it.ID] = IntLit(0)
		}
		st.regs[v] = it
	case *ssa.Next:
		return x.next(st, v)
	case *ssa.Send:
		x.send(st, v)
	case *ssa.Select:
		return x.selectStmt(st, v)
	default:
		x.unsupported("instruction %T", in)
	}
	return nil
}

// onlyIndexedAndSliced: a `new [N]T` whose address is only used by IndexAddr and Slice (varargs, composite literals of
// slices) never escapes as a pointer; it is treated like a local cell.
func onlyIndexedAndSliced(a *ssa.Alloc) bool {
	if _, ok := a.Type().(*types.Pointer).Elem().Underlying().(*types.Array); !ok {
		return false
	}
	refs := a.Referrers()
	if refs == nil {
		return false
	}
	for _, r := range *refs {
		switch u := r.(type) {
		case *ssa.IndexAddr:
			if u.X != a {
				return false
			}
			// the element address must only be stored to / loaded from
			if er := u.Referrers(); er != nil {
				for _, e := range *er {
					switch w := e.(type) {
					case *ssa.Store:
						if w.Addr != u {
							return false
						}
					case *ssa.UnOp, *ssa.DebugRef:
					default:
						return false
					}
				}
			}
		case *ssa.Slice:
			if u.X != a {
				return false
			}
		case *ssa.DebugRef:
		default:
			return false
		}
	}
	return true
}

func (x *Exec) zeroValue(t types.Type) Value {
	switch u := t.Underlying().(type) {
	case *types.Pointer:
		return &Ptr{Ref: IntLit(0), Elem: u.Elem()}
	case *types.Signature:
		return &FuncVal{T: IntLit(0), Sig: t}
	}
	return x.prog.zero(t)
}

func (x *Exec) newRef(st *State, base string) *Term {
	r := x.freshConst(st, "new."+base, SInt)
	st.assume(And(Gt(r, IntLit(0)), Not(Select(st.alloc, r))), "fresh allocation")
	st.alloc = x.define(st, "alloc", Store(st.alloc, r, True))
	x.fresh[r.String()] = true
	return r
}

func (x *Exec) newObject(st *State, name string, elem types.Type) *Ptr {
	return &Ptr{Ref: x.newRef(st, name), Elem: elem}
}

func (x *Exec) unop(st *State, v *ssa.UnOp) {
	switch v.Op {
	case token.MUL:
		p, ok := x.get(st, v.X).(*Ptr)
		if !ok {
			x.unsupported("load through non-pointer %T", x.get(st, v.X))
		}
		x.guardAccess(st, v, p, false)
		val, _ := x.load(st, p)
		if val == nil {
			x.unsupported("load of uninitialised cell")
		}
		// pointers loaded from the heap are allocated objects (or nil)
		if lp, ok := val.(*Ptr); ok && lp.Ref != nil && p.Cell == nil && lp.Ref.Kind != KIntLit {
			st.assume(Or(Eq(lp.Ref, IntLit(0)), Select(st.alloc, lp.Ref)), "")
		}
		st.regs[v] = val
		if _, isSlice := v.Type().Underlying().(*types.Slice); isSlice {
			st.origin[v] = p
		}
	case token.NOT:
		st.regs[v] = Not(x.toTerm(st, x.get(st, v.X), v.X.Type()))
	case token.SUB:
		t := x.toTerm(st, x.get(st, v.X), v.X.Type())
		if t.Sort != SInt {
			st.regs[v] = x.freshValue(st, "neg", v.Type())
			return
		}
		st.regs[v] = Sub(IntLit(0), t)
	case token.ARROW:
		x.recv(st, v)
	case token.XOR:
		st.regs[v] = x.freshValue(st, "xor", v.Type())
	default:
		x.unsupported("unop %s", v.Op)
	}
}

func isInteger(t types.Type) bool {
	b, ok := t.Underlying().(*types.Basic)
	return ok && b.Info()&types.IsInteger != 0
}

func (x *Exec) binop(st *State, v *ssa.BinOp) Value {
	a := x.toTerm(st, x.get(st, v.X), v.X.Type())
	b := x.toTerm(st, x.get(st, v.Y), v.Y.Type())
	xt := v.X.Type().Underlying()
	switch v.Op {
	case token.EQL, token.NEQ:
		var eq *Term
		switch xt.(type) {
		case *types.Interface:
			// comparison against nil uses the tag
			if isNilConst(v.Y) {
				eq = Eq(itag(a), IntLit(0))
			} else if isNilConst(v.X) {
				eq = Eq(itag(b), IntLit(0))
			} else {
				eq = Eq(a, b)
			}
		case *types.Slice:
			// only comparison with nil is legal; nil-ness of slices is not modelled beyond len == 0
			other := a
			if isNilConst(v.X) {
				other = b
			}
			c := x.freshConst(st, "isnilslice", SBool)
			st.assume(Implies(c, Eq(x.sliceLen(other), IntLit(0))), "nil slice has length 0")
			eq = c
		default:
			if _, ok := v.Y.Type().Underlying().(*types.Interface); ok && a.Sort != b.Sort {
				x.unsupported("mixed interface comparison")
			}
			if a.Sort != b.Sort {
				x.unsupported("comparison of %s and %s", a.Sort, b.Sort)
			}
			eq = Eq(a, b)
		}
		if v.Op == token.NEQ {
			return Not(eq)
		}
		return eq
	}
	if a.Sort == SString {
		switch v.Op {
		case token.ADD:
			return StrConcat(a, b)
		case token.LSS:
			return App("str.<", SBool, a, b)
		case token.LEQ:
			return App("str.<=", SBool, a, b)
		case token.GTR:
			return App("str.<", SBool, b, a)
		case token.GEQ:
			return App("str.<=", SBool, b, a)
		}
	}
	if a.Sort == SBool {
		switch v.Op {
		case token.AND, token.LAND:
			return And(a, b)
		case token.OR, token.LOR:
			return Or(a, b)
		}
	}
	if a.Sort == SInt && b.Sort == SInt && isInteger(v.X.Type()) {
		switch v.Op {
		case token.ADD:
			return Add(a, b)
		case token.SUB:
			return Sub(a, b)
		case token.MUL:
			if a.Kind == KIntLit && b.Kind == KIntLit {
				return IntLit(a.Int * b.Int)
			}
			return App("*", SInt, a, b)
		case token.QUO, token.REM:
			x.safeOb(st, v, Not(Eq(b, IntLit(0))), "integer division by zero")
			// Go truncates toward zero; SMT div floors for positive divisor. Use the truncated definitions.
			q := Ite(Ge(a, IntLit(0)),
				Ite(Gt(b, IntLit(0)), App("div", SInt, a, b), Sub(IntLit(0), App("div", SInt, a, Sub(IntLit(0), b)))),
				Ite(Gt(b, IntLit(0)), Sub(IntLit(0), App("div", SInt, Sub(IntLit(0), a), b)), App("div", SInt, Sub(IntLit(0), a), Sub(IntLit(0), b))))
			if v.Op == token.QUO {
				return q
			}
			return Sub(a, App("*", SInt, b, q))
		case token.LSS:
			return Lt(a, b)
		case token.LEQ:
			return Le(a, b)
		case token.GTR:
			return Gt(a, b)
		case token.GEQ:
			return Ge(a, b)
		}
	}
	// bit operations on integers: uninterpreted but functional (the same operands give the same result), so that contracts
	// can speak about them through bitand / bitor / bitxor
	if a.Sort == SInt && b.Sort == SInt && isInteger(v.X.Type()) {
		name := ""
		switch v.Op {
		case token.AND:
			name = "bitand"
		case token.OR:
			name = "bitor"
		case token.XOR:
			name = "bitxor"
		}
		if name != "" {
			x.prog.U.AddFun(&FunDecl{Name: name, Params: []BVar{{"x", SInt}, {"y", SInt}}, Ret: SInt})
			return SymApp(name, SInt, a, b)
		}
	}
	// floats, shifts, other bit operations: uninterpreted result
	x.abstr["binop "+v.Op.String()+" on "+v.X.Type().String()] = true
	return x.freshValue(st, "binop", v.Type())
}

func isNilConst(v ssa.Value) bool {
	c, ok := v.(*ssa.Const)
	return ok && c.Value == nil
}

func (x *Exec) indexAddr(st *State, v *ssa.IndexAddr) {
	iv := x.toTerm(st, x.get(st, v.Index), v.Index.Type())
	switch u := v.X.Type().Underlying().(type) {
	case *types.Pointer: // pointer to array
		p := x.get(st, v.X).(*Ptr)
		arr := u.Elem().Underlying().(*types.Array)
		x.safeOb(st, v, And(Ge(iv, IntLit(0)), Lt(iv, IntLit(arr.Len()))), "array index in range")
		st.regs[v] = p.extend(PathElem{IsIndex: true, Index: iv, Container: u.Elem()})
	case *types.Slice:
		sv := x.toTerm(st, x.get(st, v.X), v.X.Type())
		x.safeOb(st, v, And(Ge(iv, IntLit(0)), Lt(iv, x.sliceLen(sv))), "slice index in range")
		if o, ok := st.origin[v.X]; ok {
			st.regs[v] = o.extend(PathElem{IsIndex: true, Index: iv, Container: v.X.Type()})
			return
		}
		// no origin: read-only temporary
		c := x.newCell("tmpslice", v.X.Type())
		st.cells[c] = sv
		st.regs[v] = (&Ptr{Cell: c, Elem: v.X.Type()}).extend(PathElem{IsIndex: true, Index: iv, Container: v.X.Type()})
	default:
		x.unsupported("indexaddr on %s", v.X.Type())
	}
}

func (x *Exec) lookup(st *State, v *ssa.Lookup) {
	switch u := v.X.Type().Underlying().(type) {
	case *types.Map:
		m := x.toTerm(st, x.get(st, v.X), v.X.Type())
		k := x.toTerm(st, x.get(st, v.Index), u.Key())
		x.guardMapAccess(st, v, v.X, false)
		val, ok := x.mapLookup(st, u, m, k)
		val = x.define(st, "lookup", val)
		rv := x.fromTerm(val, u.Elem())
		if lp, isP := rv.(*Ptr); isP && lp.Ref != nil {
			st.assume(Or(Eq(lp.Ref, IntLit(0)), Select(st.alloc, lp.Ref)), "")
		}
		if v.CommaOk {
			st.regs[v] = Tuple{rv, ok}
		} else {
			st.regs[v] = rv
		}
	default:
		s := x.toTerm(st, x.get(st, v.X), v.X.Type())
		i := x.toTerm(st, x.get(st, v.Index), v.Index.Type())
		x.safeOb(st, v, And(Ge(i, IntLit(0)), Lt(i, StrLen(s))), "string index in range")
		st.regs[v] = App("str.to_code", SInt, App("str.at", SString, s, i))
	}
}

func (x *Exec) sliceOp(st *State, v *ssa.Slice) {
	var lo, hi *Term
	if v.Low != nil {
		lo = x.toTerm(st, x.get(st, v.Low), types.Typ[types.Int])
	} else {
		lo = IntLit(0)
	}
	switch u := v.X.Type().Underlying().(type) {
	case *types.Basic: // string
		s := x.toTerm(st, x.get(st, v.X), v.X.Type())
		if v.High != nil {
			hi = x.toTerm(st, x.get(st, v.High), types.Typ[types.Int])
		} else {
			hi = StrLen(s)
		}
		x.safeOb(st, v, And(Ge(lo, IntLit(0)), Le(lo, hi), Le(hi, StrLen(s))), "string slice bounds in range")
		st.regs[v] = x.define(st, "substr", App("str.substr", SString, s, lo, Sub(hi, lo)))
	case *types.Slice:
		s := x.toTerm(st, x.get(st, v.X), v.X.Type())
		if v.High != nil {
			hi = x.toTerm(st, x.get(st, v.High), types.Typ[types.Int])
		} else {
			hi = x.sliceLen(s)
		}
		// capacity is not modelled: bounds are checked against len (stronger than Go requires when cap > len)
		x.safeOb(st, v, And(Ge(lo, IntLit(0)), Le(lo, hi), Le(hi, x.sliceLen(s))), "slice bounds in range")
		if lo.Kind == KIntLit && lo.Int == 0 {
			st.regs[v] = x.mkSlice(s.Sort, x.sliceArr(s), hi)
			return
		}
		st.regs[v] = x.mkSlice(s.Sort, x.shiftArr(x.sliceArr(s), lo), Sub(hi, lo))
	case *types.Pointer: // *array
		p := x.get(st, v.X).(*Ptr)
		arrT := u.Elem().Underlying().(*types.Array)
		av, _ := x.load(st, p)
		at := x.toTerm(st, av, u.Elem())
		if v.High != nil {
			hi = x.toTerm(st, x.get(st, v.High), types.Typ[types.Int])
		} else {
			hi = IntLit(arrT.Len())
		}
		ss := x.prog.sortOf(v.Type())
		if lo.Kind == KIntLit && lo.Int == 0 {
			st.regs[v] = x.mkSlice(ss, at, hi)
			return
		}
		st.regs[v] = x.mkSlice(ss, x.shiftArr(at, lo), Sub(hi, lo))
	default:
		x.unsupported("slice of %s", v.X.Type())
	}
}

// shiftArr(a, k)[i] == a[i+k]
func (x *Exec) shiftArr(a, k *Term) *Term {
	name := "shift$" + sortMangle(a.Sort)
	if _, ok := x.prog.U.Funs[name]; !ok {
		x.prog.U.AddFun(&FunDecl{Name: name, Params: []BVar{{"a", a.Sort}, {"k", SInt}}, Ret: a.Sort})
		av := &Term{Kind: KApp, Op: "a", Sort: a.Sort}
		kv := &Term{Kind: KApp, Op: "k", Sort: SInt}
		iv := &Term{Kind: KApp, Op: "i", Sort: SInt}
		sh := SymApp(name, a.Sort, av, kv)
		x.prog.U.Axioms = append(x.prog.U.Axioms, &Axiom{Name: name, T: Forall([]BVar{{"a", a.Sort}, {"k", SInt}, {"i", SInt}},
			Eq(Select(sh, iv), Select(av, Add(iv, kv))), []*Term{Select(sh, iv)})})
	}
	return SymApp(name, a.Sort, a, k)
}

func (x *Exec) makeInterface(st *State, v Value, t types.Type) *Term {
	tag := IntLit(x.prog.tagOf(t))
	switch u := v.(type) {
	case *Ptr:
		return App("mkIface", SIface, tag, x.toTerm(st, u, t))
	case *FuncVal:
		return App("mkIface", SIface, tag, x.toTerm(st, u, t))
	case *Term:
		switch t.Underlying().(type) {
		case *types.Pointer, *types.Map, *types.Chan, *types.Signature:
			return App("mkIface", SIface, tag, u)
		}
		if u.Sort == SInt {
			if _, isBasic := t.Underlying().(*types.Basic); isBasic {
				b, _ := x.prog.boxFun(SInt)
				return App("mkIface", SIface, tag, SymApp(b, SInt, u))
			}
		}
		b, _ := x.prog.boxFun(u.Sort)
		return App("mkIface", SIface, tag, SymApp(b, SInt, u))
	}
	x.unsupported("makeinterface of %T", v)
	return nil
}

func (x *Exec) unboxAs(v *Term, t types.Type) Value {
	switch t.Underlying().(type) {
	case *types.Pointer, *types.Map, *types.Chan, *types.Signature:
		return x.fromTerm(ival(v), t)
	}
	s := x.prog.sortOf(t)
	b, ub := x.prog.boxFun(s)
	iv := ival(v)
	if iv.Kind == KApp && iv.Op == b {
		return iv.Args[0]
	}
	return SymApp(ub, s, iv)
}

func (x *Exec) typeAssert(st *State, v *ssa.TypeAssert) []*State {
	iv := x.toTerm(st, x.get(st, v.X), v.X.Type())
	if _, isIface := v.AssertedType.Underlying().(*types.Interface); isIface {
		// interface-to-interface: holds iff the dynamic type implements it
		ok := x.implementsTerm(st, iv, v.AssertedType)
		if v.CommaOk {
			st.regs[v] = Tuple{Ite(ok, iv, x.prog.zeroOfSort(SIface)), ok}
		} else {
			x.safeOb(st, v, ok, "type assertion holds")
			st.regs[v] = iv
		}
		return nil
	}
	ok := Eq(itag(iv), IntLit(x.prog.tagOf(v.AssertedType)))
	val := x.unboxAs(iv, v.AssertedType)
	if v.CommaOk {
		// value is the zero value when !ok
		if vt, isT := val.(*Term); isT {
			val = Ite(ok, vt, x.prog.zero(v.AssertedType))
		} else if p, isP := val.(*Ptr); isP {
			val = &Ptr{Ref: Ite(ok, p.Ref, IntLit(0)), Elem: p.Elem}
		}
		st.regs[v] = Tuple{val, ok}
		return nil
	}
	x.safeOb(st, v, ok, "type assertion holds")
	st.regs[v] = val
	return nil
}

// implementsTerm: which tags implement interface it (closed world over the loaded module types).
func (x *Exec) implementsTerm(st *State, iv *Term, it types.Type) *Term {
	iface := it.Underlying().(*types.Interface)
	var alts []*Term
	for _, t := range x.prog.concreteTypes() {
		if types.Implements(t, iface) {
			alts = append(alts, Eq(itag(iv), IntLit(x.prog.tagOf(t))))
		}
	}
	if iface.NumMethods() == 0 {
		return Not(Eq(itag(iv), IntLit(0)))
	}
	// unknown external implementers: result is unknown unless a module type matches
	u := x.freshConst(st, "implements", SBool)
	return Or(append(alts, And(u, Not(Eq(itag(iv), IntLit(0)))))...)
}

func (x *Exec) convert(st *State, v *ssa.Convert) {
	src := x.get(st, v.X)
	from, to := v.X.Type().Underlying(), v.Type().Underlying()
	fb, fok := from.(*types.Basic)
	tb, tok := to.(*types.Basic)
	switch {
	case fok && tok && fb.Info()&types.IsInteger != 0 && tb.Info()&types.IsInteger != 0:
		t := x.toTerm(st, src, v.X.Type())
		// widening conversions and same-size conversions of non-negative values are identity; others are abstracted
		st.regs[v] = t
		if sizeOfBasic(tb) < sizeOfBasic(fb) || (tb.Info()&types.IsUnsigned != 0) != (fb.Info()&types.IsUnsigned != 0) {
			if t.Kind == KIntLit {
				return
			}
			x.abstr["narrowing integer conversion "+fb.Name()+"->"+tb.Name()] = true
			r := x.freshValue(st, "conv", v.Type()).(*Term)
			lo, hi := basicRange(tb)
			if lo != nil {
				st.assume(Implies(And(Ge(t, lo), Le(t, hi)), Eq(r, t)), "conversion preserves in-range values")
			}
			st.regs[v] = r
		}
	case fok && tok && fb.Info()&types.IsString != 0 && tb.Info()&types.IsString != 0:
		st.regs[v] = src
	case fok && fb.Info()&types.IsString != 0: // string -> []byte / []rune
		s := x.toTerm(st, src, v.X.Type())
		ss := x.prog.sortOf(v.Type())
		if sl, ok := to.(*types.Slice); ok && isByte(sl.Elem()) {
			st.regs[v] = x.mkSlice(ss, SymApp("bytesOf", ArraySort(SInt, SInt), s), StrLen(s))
			x.prog.declBytesOf()
			return
		}
		st.regs[v] = x.freshValue(st, "conv", v.Type())
	case tok && tb.Info()&types.IsString != 0: // []byte / rune / int -> string
		if sl, ok := from.(*types.Slice); ok && isByte(sl.Elem()) {
			bt := x.toTerm(st, src, v.X.Type())
			x.prog.declBytesOf()
			st.regs[v] = SymApp("stringOf", SString, x.sliceArr(bt), x.sliceLen(bt))
			return
		}
		if fok && fb.Info()&types.IsInteger != 0 {
			t := x.toTerm(st, src, v.X.Type())
			r := x.freshValue(st, "runestr", v.Type()).(*Term)
			st.assume(Implies(And(Ge(t, IntLit(0)), Lt(t, IntLit(128))), Eq(r, App("str.from_code", SString, t))), "ASCII rune to string")
			st.regs[v] = r
			return
		}
		st.regs[v] = x.freshValue(st, "conv", v.Type())
	case fok && tok && fb.Info()&types.IsInteger != 0 && tb.Info()&types.IsFloat != 0:
		t := x.toTerm(st, src, v.X.Type())
		x.prog.U.AddFun(&FunDecl{Name: "itof", Params: []BVar{{"x", SInt}}, Ret: SFloat})
		st.regs[v] = SymApp("itof", SFloat, t)
	default:
		if _, isPtr := to.(*types.Pointer); isPtr {
			st.regs[v] = x.freshValue(st, "conv", v.Type())
			return
		}
		if fok && tok && fb.Info()&types.IsFloat != 0 && tb.Info()&types.IsFloat != 0 {
			st.regs[v] = src
			return
		}
		st.regs[v] = x.freshValue(st, "conv", v.Type())
	}
}

func (p *Program) declBytesOf() {
	if _, ok := p.U.Funs["bytesOf"]; ok {
		return
	}
	arr := ArraySort(SInt, SInt)
	p.U.AddFun(&FunDecl{Name: "bytesOf", Params: []BVar{{"s", SString}}, Ret: arr})
	p.U.AddFun(&FunDecl{Name: "stringOf", Params: []BVar{{"a", arr}, {"n", SInt}}, Ret: SString})
	s := &Term{Kind: KApp, Op: "s", Sort: SString}
	bo := SymApp("bytesOf", arr, s)
	p.U.Axioms = append(p.U.Axioms, &Axiom{Name: "stringOf_bytesOf", T: Forall([]BVar{{"s", SString}},
		Eq(SymApp("stringOf", SString, bo, StrLen(s)), s), []*Term{bo})})
}

func isByte(t types.Type) bool {
	b, ok := t.Underlying().(*types.Basic)
	return ok && (b.Kind() == types.Uint8)
}

func sizeOfBasic(b *types.Basic) int {
	switch b.Kind() {
	case types.Int8, types.Uint8:
		return 1
	case types.Int16, types.Uint16:
		return 2
	case types.Int32, types.Uint32:
		return 4
	}
	return 8
}

func basicRange(b *types.Basic) (*Term, *Term) {
	switch b.Kind() {
	case types.Int8:
		return IntLit(-128), IntLit(127)
	case types.Uint8:
		return IntLit(0), IntLit(255)
	case types.Int16:
		return IntLit(-32768), IntLit(32767)
	case types.Uint16:
		return IntLit(0), IntLit(65535)
	case types.Int32:
		return IntLit(-2147483648), IntLit(2147483647)
	case types.Uint32:
		return IntLit(0), IntLit(4294967295)
	case types.Int, types.Int64:
		return IntLit(-9223372036854775808), IntLit(9223372036854775807)
	}
	return nil, nil
}

// range / next
func (x *Exec) next(st *State, v *ssa.Next) []*State {
	it, ok := x.get(st, v.Iter).(*RangeIter)
	if !ok {
		x.unsupported("next on unknown iterator")
	}
	if it.Kind == "string" {
		s := x.toTerm(st, it.X, types.Typ[types.String])
		pos := st.ranges[it.ID]
		okT := Lt(pos, StrLen(s))
		// decode: ASCII bytes decode to themselves with width 1; others give rune >= 0x80, 1 <= width <= 4, within the string
		c := App("str.to_code", SInt, App("str.at", SString, s, pos))
		r := x.freshConst(st, "rune", SInt)
		w := x.freshConst(st, "width", SInt)
		st.assume(Implies(okT, And(
			Implies(Lt(c, IntLit(128)), And(Eq(r, c), Eq(w, IntLit(1)))),
			Implies(Ge(c, IntLit(128)), And(Ge(r, IntLit(128)), Ge(w, IntLit(1)), Le(w, IntLit(4)))),
			Le(Add(pos, w), StrLen(s)))), "utf-8 decoding")
		st.assume(And(Ge(r, IntLit(0)), Le(r, IntLit(1114111))), "rune range")
		st.regs[v] = Tuple{okT, pos, r}
		st.ranges[it.ID] = x.define(st, "pos", Ite(okT, Add(pos, w), pos))
		return nil
	}
	mt := it.Instr.X.Type().Underlying().(*types.Map)
	m := x.toTerm(st, it.X, it.Instr.X.Type())
	seen := st.ranges[it.ID]
	ks := x.prog.sortOf(mt.Key())
	has := x.mapHas(st, mt, m)
	// fork: done (all present keys seen) / another key
	done := st.clone()
	kq := &Term{Kind: KApp, Op: "k!q", Sort: ks}
	done.assume(Forall([]BVar{{"k!q", ks}}, Implies(Select(has, kq), Select(seen, kq))), "map range exhausted: every present key was visited")
	done.regs[v] = Tuple{False, x.prog.zeroOfSort(ks), x.prog.zero(mt.Elem())}
	done.trace = append(done.trace, x.where(v)+": range done")
	k := x.freshConst(st, "key", ks)
	st.assume(And(Select(has, k), Not(Select(seen, k))), "map range picks an unvisited present key")
	val := Select(x.mapVal(st, mt, m), k)
	st.regs[v] = Tuple{True, k, x.fromTerm(val, mt.Elem())}
	st.ranges[it.ID] = x.define(st, "seen", Store(seen, k, True))
	st.trace = append(st.trace, x.where(v)+": range next")
	return []*State{done}
}

var _ = sort.Strings

// closureCreated proves the captured_requires clauses of a contracted closure at its creation site. The clause is
// evaluated with the closure's captured variables bound to the values of the cells it captures.
func (x *Exec) closureCreated(st *State, in ssa.Instruction, fv *FuncVal) {
	fc := x.prog.Contracts[funcKey(fv.Fn)]
	if fc == nil || len(fc.CapturedRequires) == 0 {
		return
	}
	vars := map[string]TV{}
	for i, b := range fv.Bind {
		if i < len(fv.Fn.FreeVars) {
			if p, ok := b.(*Ptr); ok {
				val, t := x.load(st, p)
				vars[fv.Fn.FreeVars[i].Name()] = TV{V: val, T: t, S: x.prog.sortOf(t)}
				if bn := x.prog.baseFreeVarName(fv.Fn, i); bn != "" {
					vars[bn] = vars[fv.Fn.FreeVars[i].Name()]
				}
			}
		}
	}
	pkg := x.pkg
	if fv.Fn.Pkg != nil {
		pkg = fv.Fn.Pkg.Pkg
	}
	x.curInstr = in
	for _, c := range fc.CapturedRequires {
		ctx := &EvalCtx{x: x, prog: x.prog, st: st, old: st, vars: vars, pkg: pkg, noLocals: true}
		t := x.evalClauseAt(ctx, c)
		x.oblige(st, "pre", fmt.Sprintf("%s.%s#created", lastName(shortFuncName(funcKey(fv.Fn))), c.Label), t, c.Text)
	}
}

// lockBalance: a function must not return holding a mutex it acquired itself (deferred unlocks have run by now), unless
// its contract says so (`acquires`). A leaked lock blocks every later critical section on that mutex.
func (x *Exec) lockBalance(st *State, r *ssa.Return) {
	if len(st.held) == 0 {
		return
	}
	declared := map[string]bool{}
	if x.fc != nil && len(x.fc.Acquires) > 0 {
		ctx := x.ctxFor(st, x.entry, nil)
		for _, e := range x.fc.Acquires {
			func() {
				defer func() { recover() }()
				declared[ctx.lockKeyTerm(e)] = true
			}()
		}
	}
	var keys []string
	for k := range st.held {
		if x.entry != nil && x.entry.held[k] {
			continue
		}
		if declared[k] {
			continue
		}
		keys = append(keys, k)
	}
	sort.Strings(keys)
	x.curInstr = r
	for _, k := range keys {
		stable := regexp.MustCompile(`![0-9]+`).ReplaceAllString(k, "")
		x.oblige(st, "guard", "released_before_return:"+stable, False, "the function returns while still holding "+k)
	}
}
