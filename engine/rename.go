package main

import (
	"fmt"
	"os"
	"sort"
	"strings"

	"golang.org/x/tools/go/ssa"
)

// Contracts live in separate files and name local variables of the functions they annotate. A pure rename of such a local
// (same declarations, same order, same types) must not make a contract stale. With every baseline the engine records the
// table of local variable cells (captured variables and allocations, in SSA order, with their types) of each function under
// contract. When a contract names a local that the current function no longer has but the baseline table has, the name is
// translated by position to the local that now stands in its place - only if the tables have the same shape (or the same
// number of cells of that type) and the replacement is a name the baseline did not know.
type localEntry struct{ Kind, Name, Type string }

func localTable(fn *ssa.Function) []localEntry {
	var out []localEntry
	for _, fv := range fn.FreeVars {
		out = append(out, localEntry{"f", fv.Name(), fv.Type().String()})
	}
	for _, b := range fn.Blocks {
		for _, in := range b.Instrs {
			if a, ok := in.(*ssa.Alloc); ok {
				out = append(out, localEntry{"a", a.Comment, a.Type().String()})
			}
		}
	}
	return out
}

func (p *Program) writeLocalTables(path string) {
	var keys []string
	for k, fc := range p.Contracts {
		if fc.Extern || p.AllFuncs[k] == nil {
			continue
		}
		keys = append(keys, k)
	}
	sort.Strings(keys)
	var sb strings.Builder
	for _, k := range keys {
		for _, e := range localTable(p.AllFuncs[k]) {
			fmt.Fprintf(&sb, "%s\t%s\t%s\t%s\n", k, e.Kind, e.Name, e.Type)
		}
	}
	os.WriteFile(path, []byte(sb.String()), 0o644)
}

func (p *Program) readLocalTables(path string) {
	p.baseLocals = map[string][]localEntry{}
	for _, l := range readLines(path) {
		f := strings.Split(l, "\t")
		if len(f) != 4 {
			continue
		}
		p.baseLocals[f[0]] = append(p.baseLocals[f[0]], localEntry{f[1], f[2], f[3]})
	}
}

// renamedLocal: the current name of the baseline local `name` of fn, if fn has no local of that name any more.
func (p *Program) renamedLocal(fn *ssa.Function, name string) (string, bool) {
	if fn == nil || p.baseLocals == nil {
		return "", false
	}
	key := funcKey(fn)
	if m, ok := p.renameCache[key]; ok {
		if r, ok := m[name]; ok {
			return r, r != ""
		}
	} else {
		if p.renameCache == nil {
			p.renameCache = map[string]map[string]string{}
		}
		p.renameCache[key] = map[string]string{}
	}
	res := p.renamedLocalUncached(fn, key, name)
	p.renameCache[key][name] = res
	if res != "" {
		p.Renames = append(p.Renames, fmt.Sprintf("%s: %s is now %s", key, name, res))
	}
	return res, res != ""
}

func (p *Program) renamedLocalUncached(fn *ssa.Function, key, name string) string {
	base := p.baseLocals[key]
	if len(base) == 0 {
		return ""
	}
	cur := localTable(fn)
	baseNames := map[string]bool{}
	bi := -1
	for i, e := range base {
		baseNames[e.Name] = true
		if e.Name == name && bi < 0 {
			bi = i
		}
	}
	if bi < 0 {
		return ""
	}
	for _, e := range cur {
		if e.Name == name {
			return "" // still there: nothing to translate
		}
	}
	cand := ""
	same := len(cur) == len(base)
	if same {
		for i := range cur {
			if cur[i].Kind != base[i].Kind || cur[i].Type != base[i].Type {
				same = false
				break
			}
		}
	}
	if same {
		cand = cur[bi].Name
	} else {
		// same number of cells of this kind and type: the k-th one
		k, nb := 0, 0
		for i, e := range base {
			if e.Kind == base[bi].Kind && e.Type == base[bi].Type {
				if i == bi {
					k = nb
				}
				nb++
			}
		}
		var cs []string
		for _, e := range cur {
			// unnamed cells are not source variables (the result slot go/ssa adds when a named result becomes an
			// ordinary local that is returned): never a candidate
			if e.Kind == base[bi].Kind && e.Type == base[bi].Type && e.Name != "" {
				cs = append(cs, e.Name)
			}
		}
		if len(cs) == nb {
			cand = cs[k]
		}
	}
	if os.Getenv("GOVC_DEBUG_RENAME") != "" {
		fmt.Fprintf(os.Stderr, "rename %s: %s -> %q (base %d cells, now %d)\n", key, name, cand, len(base), len(cur))
		for _, e := range cur {
			fmt.Fprintf(os.Stderr, "   now: %s %s %s\n", e.Kind, e.Name, e.Type)
		}
	}
	if cand == "" || cand == name || baseNames[cand] {
		return ""
	}
	return cand
}

// baseFreeVarName: the baseline name of the i-th captured variable of closure f, if it differs from today's name and the
// closure captures the same number of variables with the same types as at baseline time.
func (p *Program) baseFreeVarName(f *ssa.Function, i int) string {
	if f == nil || p.baseLocals == nil {
		return ""
	}
	var bf []localEntry
	for _, e := range p.baseLocals[funcKey(f)] {
		if e.Kind == "f" {
			bf = append(bf, e)
		}
	}
	if len(bf) != len(f.FreeVars) || i >= len(bf) {
		return ""
	}
	for j, fv := range f.FreeVars {
		if bf[j].Type != fv.Type().String() {
			return ""
		}
	}
	if bf[i].Name == f.FreeVars[i].Name() {
		return ""
	}
	for _, fv := range f.FreeVars {
		if fv.Name() == bf[i].Name {
			return ""
		}
	}
	return bf[i].Name
}
