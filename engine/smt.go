package main

// Term language and SMT-LIB printing.

import (
	"fmt"
	"sort"
	"strconv"
	"strings"
)

type Sort string

const (
	SBool   Sort = "Bool"
	SInt    Sort = "Int"
	SString Sort = "String"
	SIface  Sort = "Iface"
	SFloat  Sort = "Float"
)

func ArraySort(k, v Sort) Sort { return Sort("(Array " + string(k) + " " + string(v) + ")") }

// arrayParts splits "(Array K V)" into K and V.
func arrayParts(s Sort) (Sort, Sort, bool) {
	str := string(s)
	if !strings.HasPrefix(str, "(Array ") {
		return "", "", false
	}
	body := str[len("(Array ") : len(str)-1]
	// K is either an atom or a parenthesised sort
	depth := 0
	for i := 0; i < len(body); i++ {
		switch body[i] {
		case '(':
			depth++
		case ')':
			depth--
		case ' ':
			if depth == 0 {
				return Sort(body[:i]), Sort(body[i+1:]), true
			}
		}
	}
	return "", "", false
}

type TermKind int

const (
	KApp TermKind = iota // Op applied to Args (Args may be empty: constant symbol)
	KIntLit
	KStrLit
	KBoolLit
	KQuant // forall / exists
	KLet
)

type BVar struct {
	Name string
	Sort Sort
}

type Term struct {
	Kind  TermKind
	Op    string
	Args  []*Term
	Sort  Sort
	Int   int64
	Str   string
	Bool  bool
	Bound []BVar
	// Patterns for quantifiers (each a list of terms)
	Pats [][]*Term
	// Sym is true when Op is an uninterpreted symbol that needs a declaration / definition.
	Sym bool
}

func IntLit(i int64) *Term  { return &Term{Kind: KIntLit, Int: i, Sort: SInt} }
func StrLit(s string) *Term { return &Term{Kind: KStrLit, Str: s, Sort: SString} }
func BoolLit(b bool) *Term  { return &Term{Kind: KBoolLit, Bool: b, Sort: SBool} }

var True = BoolLit(true)
var False = BoolLit(false)

func App(op string, s Sort, args ...*Term) *Term {
	return &Term{Kind: KApp, Op: op, Args: args, Sort: s}
}

// SymApp is an application of an uninterpreted (declared or defined) symbol.
func SymApp(op string, s Sort, args ...*Term) *Term {
	return &Term{Kind: KApp, Op: op, Args: args, Sort: s, Sym: true}
}
func Const(name string, s Sort) *Term { return SymApp(name, s) }

func isTrue(t *Term) bool  { return t.Kind == KBoolLit && t.Bool }
func isFalse(t *Term) bool { return t.Kind == KBoolLit && !t.Bool }

func Not(a *Term) *Term {
	if a.Kind == KBoolLit {
		return BoolLit(!a.Bool)
	}
	if a.Kind == KApp && a.Op == "not" {
		return a.Args[0]
	}
	return App("not", SBool, a)
}
func And(as ...*Term) *Term {
	var out []*Term
	for _, a := range as {
		if a == nil || isTrue(a) {
			continue
		}
		if isFalse(a) {
			return False
		}
		if a.Kind == KApp && a.Op == "and" {
			out = append(out, a.Args...)
		} else {
			out = append(out, a)
		}
	}
	switch len(out) {
	case 0:
		return True
	case 1:
		return out[0]
	}
	return App("and", SBool, out...)
}
func Or(as ...*Term) *Term {
	var out []*Term
	for _, a := range as {
		if a == nil || isFalse(a) {
			continue
		}
		if isTrue(a) {
			return True
		}
		out = append(out, a)
	}
	switch len(out) {
	case 0:
		return False
	case 1:
		return out[0]
	}
	return App("or", SBool, out...)
}
func Implies(a, b *Term) *Term {
	if isTrue(a) {
		return b
	}
	if isFalse(a) || isTrue(b) {
		return True
	}
	return App("=>", SBool, a, b)
}
func Eq(a, b *Term) *Term {
	if a == b {
		return True
	}
	if a.Kind == KIntLit && b.Kind == KIntLit {
		return BoolLit(a.Int == b.Int)
	}
	if a.Kind == KStrLit && b.Kind == KStrLit {
		return BoolLit(a.Str == b.Str)
	}
	if a.Kind == KBoolLit && b.Kind == KBoolLit {
		return BoolLit(a.Bool == b.Bool)
	}
	if a.Sort != b.Sort {
		panic(fmt.Sprintf("Eq: sort mismatch %s vs %s (%s = %s)", a.Sort, b.Sort, a, b))
	}
	return App("=", SBool, a, b)
}
func Ite(c, a, b *Term) *Term {
	if isTrue(c) {
		return a
	}
	if isFalse(c) {
		return b
	}
	if a.Sort != b.Sort {
		panic(fmt.Sprintf("Ite: sort mismatch %s vs %s", a.Sort, b.Sort))
	}
	return App("ite", a.Sort, c, a, b)
}
func Add(a, b *Term) *Term {
	if a.Kind == KIntLit && b.Kind == KIntLit {
		return IntLit(a.Int + b.Int)
	}
	if b.Kind == KIntLit && b.Int == 0 {
		return a
	}
	if a.Kind == KIntLit && a.Int == 0 {
		return b
	}
	return App("+", SInt, a, b)
}
func Sub(a, b *Term) *Term {
	if a.Kind == KIntLit && b.Kind == KIntLit {
		return IntLit(a.Int - b.Int)
	}
	if b.Kind == KIntLit && b.Int == 0 {
		return a
	}
	return App("-", SInt, a, b)
}
func Le(a, b *Term) *Term { return cmp("<=", a, b) }
func Lt(a, b *Term) *Term { return cmp("<", a, b) }
func Ge(a, b *Term) *Term { return cmp(">=", a, b) }
func Gt(a, b *Term) *Term { return cmp(">", a, b) }
func cmp(op string, a, b *Term) *Term {
	if a.Kind == KIntLit && b.Kind == KIntLit {
		switch op {
		case "<=":
			return BoolLit(a.Int <= b.Int)
		case "<":
			return BoolLit(a.Int < b.Int)
		case ">=":
			return BoolLit(a.Int >= b.Int)
		case ">":
			return BoolLit(a.Int > b.Int)
		}
	}
	return App(op, SBool, a, b)
}
func Select(a, i *Term) *Term {
	_, v, ok := arrayParts(a.Sort)
	if !ok {
		panic("Select on non-array sort " + string(a.Sort) + " : " + a.String())
	}
	return App("select", v, a, i)
}
func Store(a, i, v *Term) *Term {
	k, ev, ok := arrayParts(a.Sort)
	if !ok {
		panic("Store on non-array sort " + string(a.Sort))
	}
	if i.Sort != k || v.Sort != ev {
		panic(fmt.Sprintf("Store: sort mismatch array %s index %s value %s", a.Sort, i.Sort, v.Sort))
	}
	return App("store", a.Sort, a, i, v)
}
func StrLen(s *Term) *Term {
	if s.Kind == KStrLit {
		return IntLit(int64(len(s.Str)))
	}
	return App("str.len", SInt, s)
}
func StrConcat(a, b *Term) *Term {
	if a.Kind == KStrLit && b.Kind == KStrLit {
		return StrLit(a.Str + b.Str)
	}
	if a.Kind == KStrLit && a.Str == "" {
		return b
	}
	if b.Kind == KStrLit && b.Str == "" {
		return a
	}
	var args []*Term
	for _, x := range []*Term{a, b} {
		if x.Kind == KApp && x.Op == "str.++" {
			args = append(args, x.Args...)
		} else {
			args = append(args, x)
		}
	}
	return App("str.++", SString, args...)
}
func Forall(bs []BVar, body *Term, pats ...[]*Term) *Term {
	if len(bs) == 0 || body.Kind == KBoolLit {
		return body
	}
	return &Term{Kind: KQuant, Op: "forall", Bound: bs, Args: []*Term{body}, Sort: SBool, Pats: pats}
}
func Exists(bs []BVar, body *Term, pats ...[]*Term) *Term {
	if len(bs) == 0 || body.Kind == KBoolLit {
		return body
	}
	return &Term{Kind: KQuant, Op: "exists", Bound: bs, Args: []*Term{body}, Sort: SBool, Pats: pats}
}

func smtString(s string) string {
	var b strings.Builder
	b.WriteByte('"')
	for _, r := range []byte(s) {
		switch {
		case r == '"':
			b.WriteString(`""`)
		case r >= 0x20 && r < 0x7f && r != '\\':
			b.WriteByte(r)
		default:
			fmt.Fprintf(&b, "\\u{%x}", r)
		}
	}
	b.WriteByte('"')
	return b.String()
}

func (t *Term) String() string {
	var b strings.Builder
	t.write(&b)
	return b.String()
}

func (t *Term) write(b *strings.Builder) {
	switch t.Kind {
	case KIntLit:
		if t.Int < 0 {
			b.WriteString("(- " + strconv.FormatInt(-t.Int, 10) + ")")
		} else {
			b.WriteString(strconv.FormatInt(t.Int, 10))
		}
	case KStrLit:
		b.WriteString(smtString(t.Str))
	case KBoolLit:
		if t.Bool {
			b.WriteString("true")
		} else {
			b.WriteString("false")
		}
	case KQuant:
		b.WriteString("(" + t.Op + " (")
		for _, v := range t.Bound {
			b.WriteString("(" + v.Name + " " + string(v.Sort) + ")")
		}
		b.WriteString(") ")
		if len(t.Pats) > 0 {
			b.WriteString("(! ")
			t.Args[0].write(b)
			for _, p := range t.Pats {
				b.WriteString(" :pattern (")
				for i, x := range p {
					if i > 0 {
						b.WriteByte(' ')
					}
					x.write(b)
				}
				b.WriteString(")")
			}
			b.WriteString(")")
		} else {
			t.Args[0].write(b)
		}
		b.WriteString(")")
	case KLet:
		b.WriteString("(let ((" + t.Op + " ")
		t.Args[0].write(b)
		b.WriteString(")) ")
		t.Args[1].write(b)
		b.WriteString(")")
	default:
		if len(t.Args) == 0 {
			b.WriteString(t.Op)
			return
		}
		b.WriteString("(" + t.Op)
		for _, a := range t.Args {
			b.WriteByte(' ')
			a.write(b)
		}
		b.WriteString(")")
	}
}

// symbols collects uninterpreted symbols (Sym applications) of t into set.
func (t *Term) symbols(set map[string]bool) {
	if t == nil {
		return
	}
	if t.Kind == KApp && t.Sym {
		set[t.Op] = true
	}
	for _, a := range t.Args {
		a.symbols(set)
	}
	for _, p := range t.Pats {
		for _, x := range p {
			x.symbols(set)
		}
	}
}

// sorts collects all sorts mentioned in t.
func (t *Term) sorts(set map[Sort]bool) {
	if t == nil {
		return
	}
	set[t.Sort] = true
	for _, v := range t.Bound {
		set[v.Sort] = true
	}
	for _, a := range t.Args {
		a.sorts(set)
	}
}

// subst replaces free occurrences of constant symbols by terms.
func (t *Term) subst(m map[string]*Term) *Term {
	if t == nil || len(m) == 0 {
		return t
	}
	switch t.Kind {
	case KIntLit, KStrLit, KBoolLit:
		return t
	case KQuant:
		m2 := m
		for _, v := range t.Bound {
			if _, ok := m[v.Name]; ok {
				if &m2 == &m || len(m2) == len(m) {
					m2 = map[string]*Term{}
					for k, x := range m {
						m2[k] = x
					}
				}
				delete(m2, v.Name)
			}
		}
		nt := *t
		nt.Args = []*Term{t.Args[0].subst(m2)}
		nt.Pats = nil
		for _, p := range t.Pats {
			var np []*Term
			for _, x := range p {
				np = append(np, x.subst(m2))
			}
			nt.Pats = append(nt.Pats, np)
		}
		return &nt
	}
	if len(t.Args) == 0 {
		if r, ok := m[t.Op]; ok {
			return r
		}
		return t
	}
	changed := false
	args := make([]*Term, len(t.Args))
	for i, a := range t.Args {
		args[i] = a.subst(m)
		if args[i] != a {
			changed = true
		}
	}
	if !changed {
		return t
	}
	nt := *t
	nt.Args = args
	return &nt
}

// ---------------------------------------------------------------------------
// Declarations: symbols (uninterpreted functions, defined functions), datatypes, axioms.

type FunDecl struct {
	Name   string
	Params []BVar
	Ret    Sort
	Body   *Term // nil: uninterpreted
	Rec    bool
	Opaque bool // Body is only visible in queries that reveal the function
}

type Datatype struct {
	Name   Sort
	Ctor   string
	Fields []BVar // selector name, sort
}

type Axiom struct {
	Name string
	T    *Term
	// Always: include in every query regardless of relevance
	Always bool
}

// Universe holds global declarations shared by all queries.
type Universe struct {
	Funs      map[string]*FunDecl
	FunOrder  []string
	Datatypes map[Sort]*Datatype
	DTOrder   []Sort
	OpaqueSrt map[Sort]bool
	Axioms    []*Axiom
}

func NewUniverse() *Universe {
	u := &Universe{Funs: map[string]*FunDecl{}, Datatypes: map[Sort]*Datatype{}, OpaqueSrt: map[Sort]bool{}}
	u.AddDatatype(&Datatype{Name: SIface, Ctor: "mkIface", Fields: []BVar{{"itag", SInt}, {"ival", SInt}}})
	u.OpaqueSrt[SFloat] = true
	return u
}

func (u *Universe) AddDatatype(d *Datatype) {
	if _, ok := u.Datatypes[d.Name]; ok {
		return
	}
	u.Datatypes[d.Name] = d
	u.DTOrder = append(u.DTOrder, d.Name)
}

func (u *Universe) AddFun(f *FunDecl) {
	if _, ok := u.Funs[f.Name]; ok {
		return
	}
	u.Funs[f.Name] = f
	u.FunOrder = append(u.FunOrder, f.Name)
}

// ScriptLine is one element of a path's script.
type LineKind int

const (
	LDecl LineKind = iota
	LDefine
	LAssume
)

type Line struct {
	Kind LineKind
	Name string
	Sort Sort
	T    *Term
	Note string
}

// Query assembles an SMT-LIB script: relevant declarations, lines, and the negated goal.
type Query struct {
	U     *Universe
	Lines []Line
	Goal  *Term // to be proved (negated in the script); nil means "check satisfiability of the lines" (cover)
	Reveal map[string]bool
	Lemmas []*LemmaInst
	TimeoutMs int // 0: portfolio default
	NoAxioms  bool
	ExcludeAxiom string // name of an axiom to leave out (a theorem being proved must not assume itself)
}

// LemmaInst: a proved lemma instantiated by the generator at every ground application of its trigger symbol.
type LemmaInst struct {
	Name    string
	Params  []BVar
	Trigger *Term // application of an uninterpreted symbol to exactly the parameters
	Body    *Term
}

func sortAtoms(s Sort, set map[Sort]bool) {
	if k, v, ok := arrayParts(s); ok {
		sortAtoms(k, set)
		sortAtoms(v, set)
		return
	}
	set[s] = true
}

func (q *Query) Render(produceModels bool) string {
	u := q.U
	need := map[string]bool{}
	if q.Goal != nil {
		q.Goal.symbols(need)
	}
	// relevance closure over lines
	lineSyms := make([]map[string]bool, len(q.Lines))
	for i, l := range q.Lines {
		m := map[string]bool{}
		if l.T != nil {
			l.T.symbols(m)
		}
		if l.Kind == LDefine {
			m[l.Name] = true
		}
		lineSyms[i] = m
	}
	axSyms := make([]map[string]bool, len(u.Axioms))
	for i, a := range u.Axioms {
		m := map[string]bool{}
		a.T.symbols(m)
		axSyms[i] = m
	}
	included := make([]bool, len(q.Lines))
	axIncluded := make([]bool, len(u.Axioms))
	funDone := map[string]bool{}
	if true {
		// all path lines are always included (an infeasible path may be infeasible for reasons unrelated to the goal's
		// symbols); relevance filtering applies to axioms and spec functions only
		for i := range q.Lines {
			included[i] = true
			for s := range lineSyms[i] {
				need[s] = true
			}
			if q.Lines[i].Kind != LAssume {
				need[q.Lines[i].Name] = true
			}
		}
	}
	for changed := true; changed; {
		changed = false
		for i, l := range q.Lines {
			if included[i] {
				continue
			}
			inc := false
			switch l.Kind {
			case LDecl:
				inc = need[l.Name]
			case LDefine, LAssume:
				for s := range lineSyms[i] {
					if need[s] {
						inc = true
						break
					}
				}
				if len(lineSyms[i]) == 0 {
					inc = true
				}
			}
			if inc {
				included[i] = true
				changed = true
				for s := range lineSyms[i] {
					if !need[s] {
						need[s] = true
					}
				}
			}
		}
		// function definitions pull in their bodies' symbols
		for name := range need {
			if funDone[name] {
				continue
			}
			funDone[name] = true
			if f, ok := u.Funs[name]; ok && f.Body != nil && (!f.Opaque || q.Reveal[name]) {
				m := map[string]bool{}
				f.Body.symbols(m)
				for s := range m {
					if !need[s] {
						need[s] = true
						changed = true
					}
				}
			}
		}
		for i, a := range u.Axioms {
			if axIncluded[i] || q.NoAxioms || (q.ExcludeAxiom != "" && a.Name == q.ExcludeAxiom) {
				continue
			}
			inc := a.Always
			if !inc {
				// an axiom with patterns is relevant when every uninterpreted symbol of one of its patterns is needed;
				// an axiom without patterns when any of its symbols is needed
				pats := axiomPatterns(a.T)
				if len(pats) > 0 {
					for _, ps := range pats {
						all := true
						for s := range ps {
							if !need[s] {
								all = false
								break
							}
						}
						if all {
							inc = true
							break
						}
					}
				} else {
					for s := range axSyms[i] {
						if need[s] {
							inc = true
							break
						}
					}
				}
			}
			if inc {
				axIncluded[i] = true
				changed = true
				for s := range axSyms[i] {
					need[s] = true
				}
			}
		}
	}
	// collect sorts
	sorts := map[Sort]bool{}
	addSorts := func(t *Term) {
		if t == nil {
			return
		}
		m := map[Sort]bool{}
		t.sorts(m)
		for s := range m {
			sortAtoms(s, sorts)
		}
	}
	addSorts(q.Goal)
	for i, l := range q.Lines {
		if included[i] {
			addSorts(l.T)
			if l.Sort != "" {
				sortAtoms(l.Sort, sorts)
			}
		}
	}
	for i, a := range u.Axioms {
		if axIncluded[i] {
			addSorts(a.T)
		}
	}
	var funs []string
	for _, name := range u.FunOrder {
		if need[name] {
			funs = append(funs, name)
			f := u.Funs[name]
			for _, p := range f.Params {
				sortAtoms(p.Sort, sorts)
			}
			sortAtoms(f.Ret, sorts)
			if !f.Opaque || q.Reveal[name] {
				addSorts(f.Body)
			}
		}
	}
	// datatype closure
	for changed := true; changed; {
		changed = false
		for _, dn := range u.DTOrder {
			if !sorts[dn] {
				continue
			}
			for _, f := range u.Datatypes[dn].Fields {
				m := map[Sort]bool{}
				sortAtoms(f.Sort, m)
				for s := range m {
					if !sorts[s] {
						sorts[s] = true
						changed = true
					}
				}
			}
		}
	}
	var b strings.Builder
	if produceModels {
		b.WriteString("(set-option :produce-models true)\n")
	}
	b.WriteString("(set-logic ALL)\n")
	var opq []string
	for s := range sorts {
		if u.OpaqueSrt[s] {
			opq = append(opq, string(s))
		}
	}
	sort.Strings(opq)
	for _, s := range opq {
		b.WriteString("(declare-sort " + s + " 0)\n")
	}
	// datatypes in dependency order (DTOrder is creation order; dependencies are created first by construction,
	// but to be safe do a topological pass)
	emitted := map[Sort]bool{}
	var emitDT func(dn Sort)
	emitDT = func(dn Sort) {
		if emitted[dn] {
			return
		}
		emitted[dn] = true
		d := u.Datatypes[dn]
		for _, f := range d.Fields {
			m := map[Sort]bool{}
			sortAtoms(f.Sort, m)
			for s := range m {
				if _, ok := u.Datatypes[s]; ok {
					emitDT(s)
				}
			}
		}
		b.WriteString("(declare-datatypes ((" + string(d.Name) + " 0)) (((" + d.Ctor)
		for _, f := range d.Fields {
			b.WriteString(" (" + f.Name + " " + string(f.Sort) + ")")
		}
		b.WriteString("))))\n")
	}
	for _, dn := range u.DTOrder {
		if sorts[dn] {
			emitDT(dn)
		}
	}
	for _, name := range funs {
		f := u.Funs[name]
		if f.Body == nil || f.Opaque {
			b.WriteString("(declare-fun " + f.Name + " (")
			for i, p := range f.Params {
				if i > 0 {
					b.WriteByte(' ')
				}
				b.WriteString(string(p.Sort))
			}
			b.WriteString(") " + string(f.Ret) + ")\n")
		}
	}
	for _, name := range funs {
		f := u.Funs[name]
		if f.Body != nil && f.Opaque && q.Reveal[name] {
			b.WriteString("; revealed definition of " + f.Name + "\n(assert ")
			var args []*Term
			for _, p := range f.Params {
				args = append(args, &Term{Kind: KApp, Op: p.Name, Sort: p.Sort})
			}
			app := SymApp(f.Name, f.Ret, args...)
			Forall(f.Params, Eq(app, f.Body), []*Term{app}).write(&b)
			b.WriteString(")\n")
			continue
		}
		if f.Body != nil && !f.Opaque {
			kw := "define-fun"
			if f.Rec {
				kw = "define-fun-rec"
			}
			b.WriteString("(" + kw + " " + f.Name + " (")
			for _, p := range f.Params {
				b.WriteString("(" + p.Name + " " + string(p.Sort) + ")")
			}
			b.WriteString(") " + string(f.Ret) + " ")
			f.Body.write(&b)
			b.WriteString(")\n")
		}
	}
	for i, a := range u.Axioms {
		if axIncluded[i] {
			b.WriteString("; axiom " + a.Name + "\n(assert ")
			a.T.write(&b)
			b.WriteString(")\n")
		}
	}
	for i, l := range q.Lines {
		if !included[i] {
			continue
		}
		switch l.Kind {
		case LDecl:
			b.WriteString("(declare-fun " + l.Name + " () " + string(l.Sort) + ")")
		case LDefine:
			b.WriteString("(define-fun " + l.Name + " () " + string(l.Sort) + " ")
			l.T.write(&b)
			b.WriteString(")")
		case LAssume:
			b.WriteString("(assert ")
			l.T.write(&b)
			b.WriteString(")")
		}
		if l.Note != "" {
			b.WriteString(" ; " + strings.ReplaceAll(l.Note, "\n", " "))
		}
		b.WriteString("\n")
	}
	// valid theory instances for single-character containment (helps connect str.contains with position quantifiers)
	hints := map[string]bool{}
	var collect func(t *Term, bound map[string]bool)
	collect = func(t *Term, bound map[string]bool) {
		if t == nil {
			return
		}
		if t.Kind == KQuant {
			nb := map[string]bool{}
			for k := range bound {
				nb[k] = true
			}
			for _, v := range t.Bound {
				nb[v.Name] = true
			}
			collect(t.Args[0], nb)
			return
		}
		if t.Kind == KApp && strings.HasPrefix(t.Op, "Sl$") && strings.HasSuffix(t.Op, "$len") && len(t.Args) == 1 && !mentionsBound(t.Args[0], bound) {
			hints["(assert (>= "+t.String()+" 0)) ; type invariant: slice length"] = true
		}
		if t.Kind == KApp && t.Op == "str.contains" && t.Args[1].Kind == KStrLit && len(t.Args[1].Str) == 1 && !mentionsBound(t.Args[0], bound) {
			x, c := t.Args[0].String(), t.Args[1].String()
			hints[fmt.Sprintf("(assert (=> (str.contains %s %s) (and (<= 0 (str.indexof %s %s 0)) (< (str.indexof %s %s 0) (str.len %s)) (= (str.at %s (str.indexof %s %s 0)) %s))))", x, c, x, c, x, c, x, x, x, c, c)] = true
		}
		for _, a := range t.Args {
			collect(a, bound)
		}
	}
	collect(q.Goal, nil)
	for i, l := range q.Lines {
		if included[i] && l.T != nil {
			collect(l.T, nil)
		}
	}
	for _, lm := range q.Lemmas {
		seenInst := map[string]bool{}
		var find func(t *Term, bound map[string]bool)
		find = func(t *Term, bound map[string]bool) {
			if t == nil {
				return
			}
			if t.Kind == KQuant {
				nb := map[string]bool{}
				for k := range bound {
					nb[k] = true
				}
				for _, v := range t.Bound {
					nb[v.Name] = true
				}
				find(t.Args[0], nb)
				return
			}
			if t.Kind == KApp && t.Op == lm.Trigger.Op && len(t.Args) == len(lm.Trigger.Args) && !mentionsBound(t, bound) {
				m := map[string]*Term{}
				for i, a := range lm.Trigger.Args {
					m[a.Op] = t.Args[i]
				}
				inst := lm.Body.subst(m).String()
				if !seenInst[inst] {
					seenInst[inst] = true
					hints["(assert "+inst+") ; instance of lemma "+lm.Name] = true
				}
			}
			for _, a := range t.Args {
				find(a, bound)
			}
		}
		find(q.Goal, nil)
		for i, l := range q.Lines {
			if included[i] && l.T != nil {
				find(l.T, nil)
			}
		}
	}
	var hl []string
	for h := range hints {
		hl = append(hl, h)
	}
	sort.Strings(hl)
	for _, h := range hl {
		b.WriteString(h + "\n")
	}
	if q.Goal != nil {
		b.WriteString("(assert (not ")
		q.Goal.write(&b)
		b.WriteString("))\n")
	}
	b.WriteString("(check-sat)\n")
	if produceModels {
		b.WriteString("(get-model)\n")
	}
	return b.String()
}

func mentionsBound(t *Term, bound map[string]bool) bool {
	if t == nil || len(bound) == 0 {
		return false
	}
	if t.Kind == KApp && len(t.Args) == 0 && bound[t.Op] {
		return true
	}
	for _, a := range t.Args {
		if mentionsBound(a, bound) {
			return true
		}
	}
	return false
}

// axiomPatterns returns, for each pattern of a top-level quantified axiom, the set of uninterpreted symbols it mentions.
func axiomPatterns(t *Term) []map[string]bool {
	if t.Kind != KQuant || len(t.Pats) == 0 {
		return nil
	}
	var out []map[string]bool
	for _, p := range t.Pats {
		m := map[string]bool{}
		for _, x := range p {
			x.symbols(m)
		}
		for _, v := range t.Bound {
			delete(m, v.Name)
		}
		out = append(out, m)
	}
	return out
}
