package main

// Symbolic values and state.

import (
	"fmt"
	"go/types"

	"golang.org/x/tools/go/ssa"
)

type Value interface{}

type Cell struct {
	ID   int
	Name string
	Typ  types.Type
}

type PathElem struct {
	IsIndex   bool
	Field     int
	Index     *Term
	Container types.Type // struct / array / slice type being navigated
}

type Ptr struct {
	Cell   *Cell       // local variable
	Global *ssa.Global // package-level variable
	Ref    *Term       // heap object reference (Int); IntLit(0) is nil
	Elem   types.Type  // type of the base object
	Path   []PathElem
}

func (p *Ptr) extend(e PathElem) *Ptr {
	np := *p
	np.Path = append(append([]PathElem{}, p.Path...), e)
	return &np
}

type Tuple []Value

type FuncVal struct {
	Fn      *ssa.Function
	Bind    []Value
	Builtin *ssa.Builtin
	T       *Term // opaque function value
	Sig     types.Type
}

type RangeIter struct {
	Instr *ssa.Range
	Kind  string // "map" | "string"
	X     Value
	ID    int
}

type deferred struct {
	call *ssa.CallCommon
	args []Value
	fn   Value
	in   ssa.Instruction
}

type lineNode struct {
	l      Line
	parent *lineNode
	n      int
}

type State struct {
	lines   *lineNode
	regs    map[ssa.Value]Value
	origin  map[ssa.Value]*Ptr
	cells   map[*Cell]Value
	allocOf map[*ssa.Alloc]*Cell
	heap    map[string]*Term
	alloc   *Term
	defers  []deferred
	pred    *ssa.BasicBlock
	inLoop  map[*ssa.BasicBlock]bool
	ranges  map[int]*Term // range iterator id -> position (string) or seen set (map)
	rangeN  int
	held    map[string]bool // lockset (keys describe the mutex place)
	shared  bool            // a goroutine has been spawned on this path
	trace   []string
	dead    bool
	ghostv  map[string]*Term
	heapAllHavoc int
	recvd   map[string]bool // channels a value was received from on this path
	recvdT  []*Term         // the same channels as terms
	lockSnaps map[string]*State // lock_protocol: state right after the last acquire of a local mutex
	loopEntry map[*ssa.BasicBlock]*State // state in which a loop was entered (before its variables were havoced): loopentry(e)
}

func (st *State) clone() *State {
	n := &State{lines: st.lines, pred: st.pred, alloc: st.alloc, rangeN: st.rangeN, shared: st.shared}
	n.regs = make(map[ssa.Value]Value, len(st.regs))
	for k, v := range st.regs {
		n.regs[k] = v
	}
	n.origin = make(map[ssa.Value]*Ptr, len(st.origin))
	for k, v := range st.origin {
		n.origin[k] = v
	}
	n.cells = make(map[*Cell]Value, len(st.cells))
	for k, v := range st.cells {
		n.cells[k] = v
	}
	n.allocOf = make(map[*ssa.Alloc]*Cell, len(st.allocOf))
	for k, v := range st.allocOf {
		n.allocOf[k] = v
	}
	n.heap = make(map[string]*Term, len(st.heap))
	for k, v := range st.heap {
		n.heap[k] = v
	}
	n.inLoop = make(map[*ssa.BasicBlock]bool, len(st.inLoop))
	for k, v := range st.inLoop {
		n.inLoop[k] = v
	}
	n.ranges = make(map[int]*Term, len(st.ranges))
	for k, v := range st.ranges {
		n.ranges[k] = v
	}
	n.held = make(map[string]bool, len(st.held))
	for k, v := range st.held {
		n.held[k] = v
	}
	n.ghostv = make(map[string]*Term, len(st.ghostv))
	for k, v := range st.ghostv {
		n.ghostv[k] = v
	}
	n.recvdT = append([]*Term{}, st.recvdT...)
	if st.loopEntry != nil {
		n.loopEntry = make(map[*ssa.BasicBlock]*State, len(st.loopEntry))
		for k, v := range st.loopEntry {
			n.loopEntry[k] = v
		}
	}
	if st.lockSnaps != nil {
		n.lockSnaps = map[string]*State{}
		for k, v := range st.lockSnaps {
			n.lockSnaps[k] = v
		}
	}
	n.recvd = make(map[string]bool, len(st.recvd))
	for k, v := range st.recvd {
		n.recvd[k] = v
	}
	n.defers = append([]deferred{}, st.defers...)
	n.trace = append([]string{}, st.trace...)
	return n
}

func newState() *State {
	return &State{regs: map[ssa.Value]Value{}, origin: map[ssa.Value]*Ptr{}, cells: map[*Cell]Value{},
		allocOf: map[*ssa.Alloc]*Cell{}, heap: map[string]*Term{}, inLoop: map[*ssa.BasicBlock]bool{},
		ranges: map[int]*Term{}, held: map[string]bool{}, ghostv: map[string]*Term{}, recvd: map[string]bool{}}
}

func (st *State) addLine(l Line) {
	n := 0
	if st.lines != nil {
		n = st.lines.n
	}
	st.lines = &lineNode{l: l, parent: st.lines, n: n + 1}
}

func (st *State) allLines() []Line {
	if st.lines == nil {
		return nil
	}
	out := make([]Line, st.lines.n)
	for n := st.lines; n != nil; n = n.parent {
		out[n.n-1] = n.l
	}
	return out
}

func (st *State) assume(t *Term, note string) {
	if t == nil || isTrue(t) {
		return
	}
	st.addLine(Line{Kind: LAssume, T: t, Note: note})
}

// TV is a typed value used by the contract-expression evaluator.
type TV struct {
	V Value
	T types.Type // may be nil for spec-level values
	S Sort
}

func (tv TV) term() *Term {
	if t, ok := tv.V.(*Term); ok {
		return t
	}
	panic(fmt.Sprintf("value %T is not a term", tv.V))
}
