package main

// Calls: contracts, frames, builtins, interface dispatch, default havoc.

import (
	"regexp"
	"go/token"
	"fmt"
	"go/types"
	"os"
	"runtime"
	"sort"
	"strings"

	"golang.org/x/tools/go/ssa"
)

// FrameSet: which heap arrays a call may modify.
type FrameSet struct {
	All      bool
	GhostAll bool // some ghost write could not be attributed to a ghost array: every ghost array may change
	Names    map[string]bool
}

func NewFrameSet() *FrameSet { return &FrameSet{Names: map[string]bool{}} }

func (f *FrameSet) union(o *FrameSet) {
	if o == nil {
		return
	}
	if o.All {
		f.All = true
	}
	if o.GhostAll {
		f.GhostAll = true
	}
	for n := range o.Names {
		f.Names[n] = true
	}
}

// addPointeeWrites: a write through a pointer to a value of type t (field index or -1 for all).
func (p *Program) addPointeeWrites(f *FrameSet, t types.Type, field int) {
	if os.Getenv("GOVC_DEBUG_WS") == "2" && field < 0 && strings.Contains(t.String(), "TaskWorkerPool") {
		fmt.Fprintf(os.Stderr, "whole-struct write of %s\n%s\n", t, debugStack())
	}
	if st, ok := t.Underlying().(*types.Struct); ok {
		ss := p.sortOf(t)
		if _, isDT := p.U.Datatypes[ss]; isDT {
			for i := 0; i < st.NumFields(); i++ {
				if field < 0 || field == i {
					name := heapFieldName(ss, st.Field(i).Name())
					f.Names[name] = true
					heapSorts[name] = ArraySort(SInt, p.sortOf(st.Field(i).Type()))
				}
			}
			return
		}
		// opaque external struct: its own cell
	}
	s := p.sortOf(t)
	name := heapCellName(s)
	f.Names[name] = true
	heapSorts[name] = ArraySort(SInt, s)
}

func (x *Exec) applyFrame(st *State, f *FrameSet) {
	if f.All {
		names := make([]string, 0, len(heapSorts))
		for n := range heapSorts {
			names = append(names, n)
		}
		sort.Strings(names)
		for _, n := range names {
			if (strings.HasPrefix(n, "GH$") || strings.HasPrefix(n, "GV$")) && !f.GhostAll {
				continue // ghost state is only changed by contracts (an unknown function value may run any of them)
			}
			x.havocHeap(st, n)
		}
		st.heapAllHavoc++
		return
	}
	names := make([]string, 0, len(f.Names))
	for n := range f.Names {
		names = append(names, n)
	}
	sort.Strings(names)
	for _, n := range names {
		x.havocHeap(st, n)
	}
}

// concreteTypes lists the named types (and pointers to them) declared in the loaded module packages.
func (p *Program) concreteTypes() []types.Type {
	if p.concTypes != nil {
		return p.concTypes
	}
	var out []types.Type
	var paths []string
	for path := range p.SSAPkgs {
		paths = append(paths, path)
	}
	sort.Strings(paths)
	for _, path := range paths {
		sp := p.SSAPkgs[path]
		var names []string
		for n := range sp.Members {
			names = append(names, n)
		}
		sort.Strings(names)
		for _, n := range names {
			if t, ok := sp.Members[n].(*ssa.Type); ok {
				if _, isIface := t.Type().Underlying().(*types.Interface); isIface {
					continue
				}
				if named, ok := t.Type().(*types.Named); ok && named.TypeParams().Len() > 0 {
					continue
				}
				out = append(out, t.Type(), types.NewPointer(t.Type()))
			}
		}
	}
	p.concTypes = out
	return out
}

// writeSet computes the heap arrays a module function may write (transitively), type-based.
func (p *Program) writeSet(fn *ssa.Function) *FrameSet { return p.writeSetX(fn, false) }

// writeSetX with skipFV: stores through captured cells (free variables) are left out; used when a closure's effects are
// folded into its parent's write set (the captured cells are locals of the parent, invisible to the parent's callers).
func (p *Program) writeSetX(fn *ssa.Function, skipFV bool) *FrameSet {
	if fn.Origin() != nil {
		fn = fn.Origin()
	}
	cache := p.writeSets
	if skipFV {
		if p.writeSetsNoFV == nil {
			p.writeSetsNoFV = map[*ssa.Function]*FrameSet{}
		}
		cache = p.writeSetsNoFV
	}
	if ws, ok := cache[fn]; ok {
		return ws
	}
	ws := NewFrameSet()
	cache[fn] = ws // cut recursion (fixpoint below is approximated by one more pass)
	if pk := fnPkgPath(fn); pk != "" && p.Spec.PkgFrames[pk] {
		return ws
	}
	pureDeclared := false
	if fc, ok := p.Contracts[funcKey(fn)]; ok && fc.ModDeclared && len(fc.Modifies) == 0 {
		pureDeclared = true
		if fc.Trusted || len(fn.Blocks) == 0 {
			(&Exec{prog: p, fn: fn}).ghostSetFrame(fn, fc, ws)
			return ws
		}
	}
	defer func() {
		if pureDeclared {
			// real-state writes are excluded by the (checked) contract; keep only ghost names
			for n := range ws.Names {
				if !isGhostName(n) {
					delete(ws.Names, n)
				}
			}
			if ws.All {
				ws.All = false
			}
			if ws.GhostAll {
				for n := range heapSorts {
					if isGhostName(n) {
						ws.Names[n] = true
					}
				}
			}
		}
	}()
	if len(fn.Blocks) == 0 {
		if fnInModule(fn) {
			ws.All = true // module function without a body here (should not happen)
		}
		// external function: see externalFrame at the call site
		return ws
	}
	x := &Exec{prog: p, fn: fn}
	cells := map[*ssa.Alloc]bool{}
	if p.Spec != nil {
		for _, r := range p.Spec.Relies {
			if r.Pkg == fnPkgPath(fn) && callsMatching(fn, r.Callee) {
				// the environment step is applied in front of the matching calls of this function only
				if efc := p.Contracts[r.Env]; efc != nil {
					x.ghostSetFrame(nil, efc, ws)
				}
			}
		}
	}
	for _, b := range fn.Blocks {
		for _, in := range b.Instrs {
			wasAll := ws.All
			if os.Getenv("GOVC_DEBUG_WS") != "" {
				defer func(in ssa.Instruction, wasAll bool) {}(in, wasAll)
			}
			switch v := in.(type) {
			case *ssa.Store:
				// stores into objects allocated by this very function are invisible to callers
				if root, ok := rootAlloc(v.Addr); ok && root.Parent() == fn {
					continue
				}
				if skipFV && rootIsFreeVar(v.Addr) {
					continue
				}
				x.staticWrite(v.Addr, nil, cells, ws)
			case *ssa.MapUpdate:
				if mt, ok := v.Map.Type().Underlying().(*types.Map); ok {
					has, val, ln, ks, vs := x.mapHeaps(mt)
					ws.Names[has], ws.Names[val], ws.Names[ln] = true, true, true
					heapSorts[has], heapSorts[val], heapSorts[ln] = ArraySort(SInt, ArraySort(ks, SBool)), ArraySort(SInt, ArraySort(ks, vs)), ArraySort(SInt, SInt)
				}
			case ssa.CallInstruction:
				x.staticCallFrame(v, nil, cells, ws)
			}
			if ws.All && !wasAll && os.Getenv("GOVC_DEBUG_WS") != "" {
				fmt.Fprintf(os.Stderr, "writeset ALL in %s due to: %s\n", fn.Name(), in.String())
			}
		}
	}
	for _, an := range fn.AnonFuncs {
		ws.union(p.writeSetX(an, true))
	}
	return ws
}

// staticCallFrame adds what a call instruction may modify (static approximation).
func (x *Exec) staticCallFrame(ci ssa.CallInstruction, loop map[*ssa.BasicBlock]bool, cells map[*ssa.Alloc]bool, frame *FrameSet) {
	c := ci.Common()
	p := x.prog
	if _, isGo := ci.(*ssa.Go); isGo {
		// the spawned routine runs concurrently; its effects are not part of this function's sequential frame,
		// except the ghost assignments recorded when it is issued
		if f := c.StaticCallee(); f != nil {
			if fc, ok := p.Contracts[funcKey(f)]; ok {
				x.ghostSetFrame(f, fc, frame)
			}
		}
		return
	}
	if b, ok := c.Value.(*ssa.Builtin); ok && !c.IsInvoke() {
		switch b.Name() {
		case "delete":
			if mt, ok := c.Args[0].Type().Underlying().(*types.Map); ok {
				has, val, ln, _, _ := x.mapHeaps(mt)
				frame.Names[has], frame.Names[val], frame.Names[ln] = true, true, true
			}
		case "copy":
			frame.All = true
		case "close":
			frame.Names["C$closed"] = true
		}
		return
	}
	if c.IsInvoke() {
		// union over module implementations; external interfaces follow the external rule
		recvT := c.Value.Type()
		// ghost state named by the interface method's own contract is written whatever the implementation is
		if fc, ok := p.Contracts[ifaceMethodKey(recvT, c.Method.Name())]; ok {
			x.ghostSetFrame(nil, fc, frame)
		}
		if named, ok := recvT.(*types.Named); ok && named.Obj().Pkg() != nil && !inModule(named.Obj().Pkg()) || !moduleInterface(recvT) {
			x.externalArgsFrame(c.Args, loop, cells, frame)
			return
		}
		if fc, ok := p.Contracts[ifaceMethodKey(recvT, c.Method.Name())]; ok && fc.ModDeclared && len(fc.Modifies) == 0 {
			return
		}
		iface := recvT.Underlying().(*types.Interface)
		for _, t := range p.concreteTypes() {
			if types.Implements(t, iface) {
				if m := p.SSA.LookupMethod(t, c.Method.Pkg(), c.Method.Name()); m != nil {
					frame.union(p.writeSet(m))
				}
			}
		}
		return
	}
	if f := c.StaticCallee(); f != nil {
		x.calleeFrame(f, c.Args, loop, cells, frame)
		if mc, ok := c.Value.(*ssa.MakeClosure); ok {
			_ = mc
		}
		return
	}
	// dynamic function value: functype contract or everything
	if fc := p.funcTypeContract(c.Value.Type()); fc != nil {
		x.ghostSetFrame(nil, fc, frame)
		if fc.ModDeclared && len(fc.Modifies) == 0 {
			return
		}
	}
	// a closure created in this function and called through a local variable
	if fns := localClosures(c.Value); len(fns) > 0 {
		for _, fn := range fns {
			x.calleeFrame(fn, c.Args, loop, cells, frame)
		}
		return
	}
	if os.Getenv("GOVC_DEBUG_WS") != "" {
		fmt.Fprintf(os.Stderr, "writeset ALL: %s: dynamic call %s of type %s\n", x.fn.Name(), ci.String(), c.Value.Type())
	}
	frame.All = true
}

func moduleInterface(t types.Type) bool {
	if named, ok := t.(*types.Named); ok {
		return named.Obj().Pkg() != nil && inModule(named.Obj().Pkg())
	}
	return false
}

func ifaceMethodKey(t types.Type, method string) string {
	return "(" + types.TypeString(t, nil) + ")." + method
}

func (p *Program) funcTypeContract(t types.Type) *FuncContract {
	if named, ok := t.(*types.Named); ok {
		key := named.Obj().Pkg().Path() + "." + named.Obj().Name()
		if fc, ok := p.Spec.FuncTypes[key]; ok {
			return fc
		}
	}
	return nil
}

func (x *Exec) calleeFrame(f *ssa.Function, args []ssa.Value, loop map[*ssa.BasicBlock]bool, cells map[*ssa.Alloc]bool, frame *FrameSet) {
	p := x.prog
	key := funcKey(f)
	if f.Origin() != nil {
		key = funcKey(f.Origin())
	}
	if fc, ok := p.Contracts[key]; ok {
		x.ghostSetFrame(f, fc, frame)
	}
	if fc, ok := p.Contracts[key]; ok && fc.ModDeclared {
		if len(f.Blocks) > 0 && !fc.Trusted {
			for n := range p.writeSet(f).Names {
				if isGhostName(n) {
					frame.Names[n] = true
				}
			}
		}
		if len(fc.Modifies) == 0 {
			return
		}
		// object-specific frames are applied precisely at run time; statically approximate by type
		for _, m := range fc.Modifies {
			x.staticModifies(f, fc, m, frame)
		}
		return
	}
	if fnInModule(f) || f.Parent() != nil {
		frame.union(p.writeSet(f))
		// stores through pointer arguments that point to caller locals
		for _, a := range args {
			if root, ok := rootAlloc(a); ok && !root.Heap {
				if loop == nil || !loop[root.Block()] {
					cells[root] = true
				}
			}
		}
		return
	}
	x.externalArgsFrame(args, loop, cells, frame)
}

// staticModifies approximates an object-specific modifies entry by the heap array it lives in.
func (x *Exec) staticModifies(f *ssa.Function, fc *FuncContract, m Expr, frame *FrameSet) {
	switch e := m.(type) {
	case *EField:
		// base.field: find the type of base among parameters
		bt := x.staticExprType(f, fc, e.X)
		if bt == nil {
			frame.All = true
			return
		}
		if pt, ok := bt.Underlying().(*types.Pointer); ok {
			bt = pt.Elem()
		}
		st, ok := bt.Underlying().(*types.Struct)
		if !ok {
			frame.All = true
			return
		}
		if e.Name == "all" {
			x.prog.addPointeeWrites(frame, bt, -1)
			return
		}
		for i := 0; i < st.NumFields(); i++ {
			if st.Field(i).Name() == e.Name {
				x.prog.addPointeeWrites(frame, bt, i)
				return
			}
		}
		// ghost field
		frame.Names[ghostHeapName(bt, e.Name)] = true
	case *EIdent:
		if t := x.staticExprType(f, fc, e); t != nil {
			if mt, ok := t.Underlying().(*types.Map); ok {
				has, val, ln, _, _ := x.mapHeaps(mt)
				frame.Names[has], frame.Names[val], frame.Names[ln] = true, true, true
				return
			}
		}
		// a closure's captured variable, by name: the captured cell is written (its cell lives in the heap array of the
		// variable's type)
		if f != nil {
			for i, fv := range f.FreeVars {
				if fv.Name() == e.Name || x.prog.baseFreeVarName(f, i) == e.Name {
					if pt, ok := fv.Type().Underlying().(*types.Pointer); ok {
						x.prog.addPointeeWrites(frame, pt.Elem(), -1)
						return
					}
				}
			}
		}
		// ghost variable
		frame.Names["GV$"+e.Name] = true
	case *ECall:
		if e.Fun == "heap" && len(e.Args) == 1 {
			if s, ok := e.Args[0].(*EStr); ok {
				frame.Names[s.V] = true
				return
			}
		}
		if e.Fun == "contents" && len(e.Args) == 1 {
			if t := x.staticExprType(f, fc, e.Args[0]); t != nil {
				if mt, ok := t.Underlying().(*types.Map); ok {
					has, val, ln, _, _ := x.mapHeaps(mt)
					frame.Names[has], frame.Names[val], frame.Names[ln] = true, true, true
					return
				}
			}
		}
		frame.All = true
	case *EIndex:
		if id, ok := e.X.(*EIdent); ok {
			frame.Names["GV$"+id.Name] = true
			return
		}
		frame.All = true
	default:
		frame.All = true
	}
}

func (x *Exec) staticExprType(f *ssa.Function, fc *FuncContract, e Expr) types.Type {
	switch v := e.(type) {
	case *EIdent:
		if f.Signature != nil {
			res := f.Signature.Results()
			for i := 0; i < res.Len(); i++ {
				if (i < len(fc.Results) && fc.Results[i] == v.Name) || res.At(i).Name() == v.Name {
					// a parameter of the same name wins
					isParam := false
					for j, p := range f.Params {
						if p.Name() == v.Name || (j < len(fc.Params) && fc.Params[j] == v.Name) {
							isParam = true
						}
					}
					if !isParam {
						return res.At(i).Type()
					}
				}
			}
		}
		for i, p := range f.Params {
			if p.Name() == v.Name || (i < len(fc.Params) && fc.Params[i] == v.Name) {
				return p.Type()
			}
		}
		if f.Signature != nil && len(f.Params) == 0 {
			// extern without body: use the signature
			sig := f.Signature
			off := 0
			if sig.Recv() != nil {
				if len(fc.Params) > 0 && fc.Params[0] == v.Name {
					return sig.Recv().Type()
				}
				off = 1
			}
			for i := 0; i < sig.Params().Len(); i++ {
				if i+off < len(fc.Params) && fc.Params[i+off] == v.Name {
					return sig.Params().At(i).Type()
				}
			}
		}
	case *EField:
		bt := x.staticExprType(f, fc, v.X)
		if bt == nil {
			return nil
		}
		if pt, ok := bt.Underlying().(*types.Pointer); ok {
			bt = pt.Elem()
		}
		if st, ok := bt.Underlying().(*types.Struct); ok {
			for i := 0; i < st.NumFields(); i++ {
				if st.Field(i).Name() == v.Name {
					return st.Field(i).Type()
				}
			}
		}
	}
	return nil
}

// externalArgsFrame: an external (non-module) callee may write through pointer and map arguments.
func (x *Exec) externalArgsFrame(args []ssa.Value, loop map[*ssa.BasicBlock]bool, cells map[*ssa.Alloc]bool, frame *FrameSet) {
	// closures of this function that were handed to code outside the module (a goroutine pool, sync.Once, ...) may run
	// at any later external call (e.g. task.Wait()): every external call carries their write sets
	for _, fn := range x.escapingClosures() {
		frame.union(x.prog.writeSetX(fn, true))
	}
	for _, a := range args {
		if fns := localClosures(a); len(fns) > 0 {
			for _, fn := range fns {
				frame.union(x.prog.writeSetX(fn, true))
			}
		} else if fn, ok := a.(*ssa.Function); ok {
			frame.union(x.prog.writeSet(fn))
		}
		if mi, ok := a.(*ssa.MakeInterface); ok {
			// a pointer handed over inside an interface value (yaml.Unmarshal(data, &v), json.NewDecoder(r).Decode(&v),
			// fmt.Fprintf(w, ...)): the external callee may write through it just as well
			if _, isPtr := mi.X.Type().Underlying().(*types.Pointer); isPtr {
				if x.objectHavoc {
					continue // the call rule havocs exactly the object pointed to
				}
				a = mi.X
			}
		}
		switch u := a.Type().Underlying().(type) {
		case *types.Pointer:
			if root, ok := rootAlloc(a); ok && !root.Heap {
				if loop == nil || !loop[root.Block()] {
					cells[root] = true
				}
				continue
			}
			x.prog.addPointeeWrites(frame, u.Elem(), -1)
		case *types.Map:
			has, val, ln, _, _ := x.mapHeaps(u)
			frame.Names[has], frame.Names[val], frame.Names[ln] = true, true, true
		}
	}
}

// ---------------------------------------------------------------------------
// dynamic call handling

func (x *Exec) call(st *State, in ssa.Instruction, c *ssa.CallCommon) (Value, []*State) {
	var args []Value
	for _, a := range c.Args {
		args = append(args, x.get(st, a))
	}
	var fn Value
	if c.IsInvoke() {
		fn = x.get(st, c.Value)
	} else {
		fn = x.get(st, c.Value)
	}
	return x.callWith(st, in, c, fn, args), nil
}

func (x *Exec) callWith(st *State, in ssa.Instruction, c *ssa.CallCommon, fnv Value, args []Value) Value {
	x.applyRely(st, in, c)
	if x.fc != nil && len(x.fc.CallAsserts) > 0 {
		sites := []string{fmt.Sprintf("%s#%d", x.calleeName(c), x.callOrd[in])}
		if q := x.qualSite[in]; q != "" {
			sites = append(sites, q)
		}
		for _, site := range sites {
			cl, ok := x.fc.CallAsserts[site]
			if !ok {
				continue
			}
			x.assertedSites[site] = true
			// the actual arguments of the call are available as arg1, arg2, ... (receiver excluded for method and
			// interface calls)
			extra := map[string]TV{}
			for i, av := range c.Args {
				k := i + 1
				if !c.IsInvoke() && c.Signature().Recv() != nil {
					k = i
				}
				if k >= 1 && i < len(args) {
					extra[fmt.Sprintf("arg%d", k)] = TV{V: args[i], T: av.Type(), S: x.prog.sortOf(av.Type())}
				}
			}
			ctx := x.ctxFor(st, x.entry, extra)
			for _, a := range cl {
				x.oblige(st, "assert", a.Label+"@"+site, x.evalBool(ctx, a), a.Text)
			}
		}
	}
	sig := c.Signature()
	var resT types.Type = sig.Results()
	if sig.Results().Len() == 1 {
		resT = sig.Results().At(0).Type()
	}
	if c.IsInvoke() {
		recv := x.toTerm(st, fnv, c.Value.Type())
		return x.invoke(st, in, c, recv, args, resT)
	}
	fv, _ := fnv.(*FuncVal)
	if fv != nil && fv.Builtin != nil {
		return x.builtin(st, in, c, fv.Builtin, args)
	}
	if fv != nil && fv.Fn != nil {
		return x.callStatic(st, in, c, fv, args, resT)
	}
	// a closure of the enclosing function reached through a captured variable that only ever holds that closure
	if fns := localClosures(c.Value); len(fns) == 1 {
		if _, has := x.prog.Contracts[funcKey(fns[0])]; has {
			return x.callStatic(st, in, c, &FuncVal{Fn: fns[0], Sig: c.Value.Type()}, args, resT)
		}
	}
	// dynamic function value
	if fc := x.prog.funcTypeContract(c.Value.Type()); fc != nil {
		x.externsUsed["functype "+fc.Key] = true
		return x.applyContract(st, in, fc, nil, sig, nil, args, resT, "functype "+fc.Key)
	}
	if x.fromEffectFreePkg(c.Value, 0) {
		// a function value produced by a package declared effect-free on modelled state (pkgframe), e.g. color.SprintFunc
		x.externsUsed["function values returned by pkgframe packages are effect-free on modelled state"] = true
		return x.freshResult(st, "dyn", resT)
	}
	x.abstr["dynamic call of "+c.Value.Type().String()] = true
	f := NewFrameSet()
	f.All = true
	f.GhostAll = true // an unknown function value may be any function: it may assign every ghost variable too
	x.applyFrame(st, f)
	return x.freshResult(st, "dyn", resT)
}

func (x *Exec) freshResult(st *State, base string, resT types.Type) Value {
	if tup, ok := resT.(*types.Tuple); ok && tup.Len() == 0 {
		return nil
	}
	return x.freshValue(st, "ret."+base, resT)
}

func (x *Exec) callStatic(st *State, in ssa.Instruction, c *ssa.CallCommon, fv *FuncVal, args []Value, resT types.Type) Value {
	f := fv.Fn
	key := funcKey(f)
	if f.Origin() != nil {
		key = funcKey(f.Origin())
	}
	if v, ok := x.special(st, in, key, f, args, resT); ok {
		return v
	}
	if fc, ok := x.prog.Contracts[key]; ok {
		if fc.Extern {
			x.externsUsed[key] = true
		}
		return x.applyContract(st, in, fc, f, f.Signature, fv, args, resT, shortFuncName(key))
	}
	// no contract: default frame + fresh result
	x.abstr[shortFuncName(key)] = true
	frame := NewFrameSet()
	cells := map[*ssa.Alloc]bool{}
	x.objectHavoc = !fnInModule(f)
	x.calleeFrame(f, c.Args, nil, cells, frame)
	x.objectHavoc = false
	if f.Parent() != nil || len(fv.Bind) > 0 {
		// closure: may write the captured cells it stores to
		for i, b := range fv.Bind {
			if p, ok := b.(*Ptr); ok && i < len(f.FreeVars) && writesFreeVar(f, f.FreeVars[i], 0) {
				x.havocPointee(st, p)
			}
		}
	}
	// pointer arguments to uncontracted callees: havoc what they point to
	for i, a := range args {
		if !fnInModule(f) && i < len(c.Args) {
			if mi, ok := c.Args[i].(*ssa.MakeInterface); ok {
				if _, isPtr := mi.X.Type().Underlying().(*types.Pointer); isPtr {
					// a pointer inside an interface value (proto.Unmarshal(data, msg), yaml.Unmarshal(data, &v)): the
					// callee may write the object it points to - that object, not every object of its type
					if p, ok := x.get(st, mi.X).(*Ptr); ok {
						x.havocPointee(st, p)
					} else {
						pf := NewFrameSet()
						x.prog.addPointeeWrites(pf, mi.X.Type().Underlying().(*types.Pointer).Elem(), -1)
						frame.union(pf)
					}
					continue
				}
			}
		}
		if p, ok := a.(*Ptr); ok && (p.Cell != nil || len(p.Path) > 0) {
			if fnInModule(f) {
				// module callee: its write set tells whether the pointee type is written
				ws := x.prog.writeSet(f)
				if !ws.All && !x.writesPointee(ws, p) && p.Cell == nil {
					continue
				}
			}
			_ = i
			x.havocPointee(st, p)
		}
	}
	x.applyFrame(st, frame)
	return x.freshResult(st, f.Name(), resT)
}

func (x *Exec) writesPointee(ws *FrameSet, p *Ptr) bool {
	f := NewFrameSet()
	x.prog.addPointeeWrites(f, p.Elem, -1)
	for n := range f.Names {
		if ws.Names[n] {
			return true
		}
	}
	return false
}

func (x *Exec) havocPointee(st *State, p *Ptr) {
	switch {
	case p.Cell != nil:
		st.cells[p.Cell] = x.freshValue(st, "havoc."+p.Cell.Name, p.Cell.Typ)
	case p.Global != nil:
		x.havocHeap(st, x.globalName(p.Global))
	case p.Ref != nil:
		f := NewFrameSet()
		if len(p.Path) > 0 && !p.Path[0].IsIndex {
			x.prog.addPointeeWrites(f, p.Elem, p.Path[0].Field)
		} else {
			x.prog.addPointeeWrites(f, p.Elem, -1)
		}
		// object-specific havoc
		for n := range f.Names {
			s, ok := heapSorts[n]
			if !ok {
				continue
			}
			_, es, _ := arrayParts(s)
			cur := x.heapGet(st, n, es)
			x.heapSet(st, n, Store(cur, p.Ref, x.freshConst(st, "havoc", es)))
		}
	}
}

// applyContract: assert requires, havoc frame, assume ensures.
func (x *Exec) applyContract(st *State, in ssa.Instruction, fc *FuncContract, f *ssa.Function, sig *types.Signature, fv *FuncVal, args []Value, resT types.Type, shortName string) Value {
	vars := map[string]TV{}
	// parameter types: receiver first
	var ptypes []types.Type
	if f != nil && len(f.Params) > 0 {
		for _, p := range f.Params {
			ptypes = append(ptypes, p.Type())
		}
	} else {
		if sig.Recv() != nil {
			ptypes = append(ptypes, sig.Recv().Type())
		}
		for i := 0; i < sig.Params().Len(); i++ {
			ptypes = append(ptypes, sig.Params().At(i).Type())
		}
	}
	for i, a := range args {
		if i >= len(ptypes) {
			break
		}
		tv := TV{V: a, T: ptypes[i], S: x.prog.sortOf(ptypes[i])}
		if i < len(fc.Params) {
			vars[fc.Params[i]] = tv
		}
		if f != nil && i < len(f.Params) {
			if _, dup := vars[f.Params[i].Name()]; !dup {
				vars[f.Params[i].Name()] = tv
			}
		}
	}
	// captured variables of closures, by name: each denotes the content of its cell in the state the clause is evaluated in
	// (the pre-state inside old(...), the post-state otherwise)
	fvCells := map[string]*Ptr{}
	if fv != nil && f != nil {
		for i, b := range fv.Bind {
			if i < len(f.FreeVars) {
				if p, ok := b.(*Ptr); ok {
					fvCells[f.FreeVars[i].Name()] = p
					if bn := x.prog.baseFreeVarName(f, i); bn != "" {
						fvCells[bn] = p
					}
				}
			}
		}
	}
	pkg := x.pkg
	if f != nil && f.Pkg != nil {
		pkg = f.Pkg.Pkg
	}
	pre := st.clone()
	var calleeDefs map[string]*FunDecl
	mk := func(s *State) *EvalCtx {
		return &EvalCtx{x: x, prog: x.prog, st: s, old: pre, vars: vars, pkg: pkg, noLocals: true, localDefs: calleeDefs, fvCells: fvCells}
	}
	calleeDefs = x.instantiateDefs(st, fc, func() *EvalCtx { return mk(pre) })
	ord := x.callOrd[in]
	for _, c := range fc.Requires {
		ctx := mk(st)
		ctx.old = pre
		t := x.evalClauseAt(ctx, c)
		x.oblige(st, "pre", fmt.Sprintf("%s.%s#%d", lastName(shortName), c.Label, ord), t, c.Text)
	}
	// lock effects
	for _, e := range fc.Acquires {
		key := mk(st).lockKeyTerm(e)
		x.acquire(st, in, key, e, mk(st))
	}
	for _, e := range fc.Releases {
		key := mk(st).lockKeyTerm(e)
		x.release(st, in, key, e, mk(st))
	}
	// ghost frame: ghost arrays written (transitively) by the callee are forgotten; its ensures/ghostsets re-establish
	// what the contract promises about them
	if f != nil && len(f.Blocks) > 0 && !fc.Trusted {
		gf := NewFrameSet()
		ws := x.prog.writeSet(f)
		if ws.GhostAll {
			for n := range heapSorts {
				if isGhostName(n) {
					gf.Names[n] = true
				}
			}
		}
		for n := range ws.Names {
			if isGhostName(n) {
				gf.Names[n] = true
			}
		}
		x.applyFrame(st, gf)
	}
	// frame
	if fc.ModDeclared {
		for _, m := range fc.Modifies {
			// a closure's captured variable, by name: the captured cell itself is written
			if id, ok := m.(*EIdent); ok && fv != nil && f != nil {
				done := false
				for i, b := range fv.Bind {
					if i < len(f.FreeVars) && (f.FreeVars[i].Name() == id.Name || x.prog.baseFreeVarName(f, i) == id.Name) {
						if p, ok := b.(*Ptr); ok {
							x.havocPointee(st, p)
							done = true
						}
					}
				}
				if done {
					continue
				}
			}
			x.havocModifies(st, mk(pre), m)
		}
	} else if f != nil && len(f.Blocks) > 0 {
		if os.Getenv("GOVC_DEBUG_WS") != "" {
			ws := x.prog.writeSet(f)
			var ns []string
			for n := range ws.Names {
				ns = append(ns, n)
			}
			sort.Strings(ns)
			fmt.Fprintf(os.Stderr, "writeset of %s: all=%v %v\n", f.Name(), ws.All, ns)
		}
		x.applyFrame(st, x.prog.writeSet(f))
		for _, a := range args {
			if p, ok := a.(*Ptr); ok && p.Cell != nil {
				x.havocPointee(st, p)
			}
		}
	} else {
		// external with contract but no modifies clause: pointer/map args
		for i, a := range args {
			if p, ok := a.(*Ptr); ok {
				if i == 0 && sig.Recv() != nil {
					continue // receivers of contracted externals are governed by the contract
				}
				x.havocPointee(st, p)
			}
		}
	}
	// results
	res := x.functionalResult(st, fc, ptypes, args, resT)
	if res == nil {
		res = x.freshResult(st, lastName(shortName), resT)
	}
	if res != nil {
		if tup, ok := res.(Tuple); ok {
			rt := resT.(*types.Tuple)
			for i, v := range tup {
				tv := TV{V: v, T: rt.At(i).Type(), S: x.prog.sortOf(rt.At(i).Type())}
				if i < len(fc.Results) {
					vars[fc.Results[i]] = tv
				}
			}
		} else {
			tv := TV{V: res, T: resT, S: x.prog.sortOf(resT)}
			if len(fc.Results) > 0 {
				vars[fc.Results[0]] = tv
			}
			vars["result"] = tv
		}
	}
	for _, name := range fc.Allocates {
		if tv, ok := vars[name]; ok {
			r := x.toTerm(st, tv.V, tv.T)
			if r.Sort == SIface {
				r = ival(r)
			}
			st.assume(Or(Eq(r, IntLit(0)), And(Gt(r, IntLit(0)), Not(Select(st.alloc, r)))), "result "+name+" of "+shortName+" is nil or freshly allocated")
			st.alloc = x.define(st, "alloc", Store(st.alloc, r, True))
			x.fresh[r.String()] = true
		}
	}
	if endsInFalse(fc) {
		// a loop that has to complete (e.g. the one that names every failed target) must not end the process in its body
		if in != nil && x.fc != nil {
			for h, ord := range x.loopOrdOf {
				if st.inLoop[h] && loopBlocks(h)[in.Block()] {
					if lc := x.fc.Loops[ord]; lc != nil && lc.Completes != "" {
						x.oblige(st, "completes", fmt.Sprintf("loop%d.%s", ord, lc.Completes), False, "the loop body calls "+shortName+", which does not return")
					}
				}
			}
		}
	}
	witnesses := map[string]TV{}
	for _, c := range fc.Ensures {
		ctx := mk(st)
		ctx.calleeFn, ctx.witnesses = f, witnesses
		t := x.evalClauseAt(ctx, c)
		if isFalse(t) && strings.TrimSpace(c.Text) != "false" {
			// vacuity guard: a postcondition that folds to false at this call site would make everything after the call
			// provable; unless the contract says `ensures false` (the callee does not return) that is an error in the
			// contract or the engine, never a proof
			x.oblige(st, "vacuity", fmt.Sprintf("%s.%s#%d", lastName(shortName), c.Label, ord), False, "postcondition is contradictory at this call site: "+c.Text)
		}
		st.assume(t, "ensures of "+shortName+" ["+c.Label+"]")
	}
	x.applyGhostSets(st, fc, mk(st))
	if endsInFalse(fc) {
		st.dead = true // the callee does not return: the path ends here
	}
	// vacuity guard per call site: with the callee's postconditions assumed, the path must still be satisfiable (a cover
	// query, expected not to be unsat; up to three paths per call site are tried, one satisfiable path is enough)
	if x.fc != nil && len(fc.Ensures) > 0 && !x.sweep && !endsInFalse(fc) {
		if x.callCovers == nil {
			x.callCovers = map[string]int{}
		}
		in := fmt.Sprintf("%s#%d", shortName, ord)
		if os.Getenv("GOVC_DEBUG_COVER") != "" {
			fmt.Fprintf(os.Stderr, "cover site %s#%d in %s n=%d trace=%v\n", shortName, ord, x.fn.Name(), x.callCovers[in], st.trace)
		}
		if x.callCovers[in] < 3 {
			x.callCovers[in]++
			name := x.obName("cover", fmt.Sprintf("after:%s#%d", lastName(shortName), ord))
			ob := x.obs[name]
			if ob == nil {
				ob = &Obligation{Name: name, Fn: funcKey(x.fn), Kind: "cover", Label: "after:" + lastName(shortName), Clause: "the path stays feasible when the postconditions of " + shortName + " are assumed at this call site (vacuity guard)"}
				x.obs[name] = ob
				x.obOrd = append(x.obOrd, name)
			}
			ob.Queries = append(ob.Queries, &Query{U: x.prog.U, Lines: st.allLines(), Goal: nil, Reveal: x.reveal(), Lemmas: x.lemmas, TimeoutMs: 1000})
			ob.Traces = append(ob.Traces, nil)
		}
	}
	if x.fc != nil && x.fc.CrashInv != nil && len(fc.GhostSets) > 0 {
		// crash point: the process may die right after this effectful call
		ctx := x.ctxFor(st, x.entry, nil)
		x.oblige(st, "crash", fmt.Sprintf("%s#%d", lastName(shortName), x.callOrd[in]), x.evalBool(ctx, x.fc.CrashInv), x.fc.CrashInv.Text)
	}
	return res
}

func lastName(s string) string {
	if i := strings.LastIndex(s, "."); i >= 0 && !strings.HasSuffix(s, ")") {
		return s[i+1:]
	}
	return s
}

func (x *Exec) evalClauseAt(ctx *EvalCtx, c *Clause) *Term {
	return x.evalBool(ctx, c)
}

// havocModifies havocs one object-specific frame entry (evaluated in the pre-state).
func (x *Exec) havocModifies(st *State, ctx *EvalCtx, m Expr) {
	defer func() {
		if r := recover(); r != nil {
			if e, ok := r.(evalError); ok {
				panic(unsupported{"modifies clause " + m.exprString() + ": " + e.msg})
			}
			panic(r)
		}
	}()
	switch e := m.(type) {
	case *EField:
		base := ctx.eval(e.X)
		bt := base.T
		if bt == nil {
			ctx.fail("modifies needs a typed base")
		}
		if pt, ok := bt.Underlying().(*types.Pointer); ok {
			bt = pt.Elem()
		} else {
			ctx.fail("modifies base must be a pointer")
		}
		ref := ctx.termOf(base)
		stt, ok := bt.Underlying().(*types.Struct)
		if !ok {
			ctx.fail("modifies base must point to a struct")
		}
		if gs, ok := ctx.ghostField(bt, e.Name); ok {
			name := ghostHeapName(bt, e.Name)
			cur := x.heapGet(st, name, gs)
			x.heapSet(st, name, Store(cur, ref, x.freshConst(st, "ghost."+e.Name, gs)))
			return
		}
		ss := x.prog.sortOf(bt)
		for i := 0; i < stt.NumFields(); i++ {
			if e.Name == "all" || stt.Field(i).Name() == e.Name {
				fs := x.prog.sortOf(stt.Field(i).Type())
				name := heapFieldName(ss, stt.Field(i).Name())
				cur := x.heapGet(st, name, fs)
				nv := x.freshConst(st, "mod."+stt.Field(i).Name(), fs)
				x.heapSet(st, name, Store(cur, ref, nv))
				if e.Name != "all" {
					return
				}
			}
		}
		if e.Name != "all" {
			ctx.fail("no field %s", e.Name)
		}
	case *EIdent:
		tv := ctx.eval(e)
		if tv.T != nil {
			if mt, ok := tv.T.Underlying().(*types.Map); ok {
				ref := ctx.termOf(tv)
				has, val, ln, ks, vs := x.mapHeaps(mt)
				x.heapSet(st, has, Store(x.heapGet(st, has, ArraySort(ks, SBool)), ref, x.freshConst(st, "mod.has", ArraySort(ks, SBool))))
				x.heapSet(st, val, Store(x.heapGet(st, val, ArraySort(ks, vs)), ref, x.freshConst(st, "mod.val", ArraySort(ks, vs))))
				nl := x.freshConst(st, "mod.len", SInt)
				st.assume(Ge(nl, IntLit(0)), "")
				x.heapSet(st, ln, Store(x.heapGet(st, ln, SInt), ref, nl))
				return
			}
			if p, ok := tv.V.(*Ptr); ok {
				x.havocPointee(st, p)
				return
			}
		}
		// ghost variable
		name := "GV$" + e.Name
		if s, ok := heapSorts[name]; ok {
			st.heap[name] = x.freshConst(st, name, s)
			return
		}
		ctx.fail("cannot havoc %s", e.Name)
	case *EIndex:
		id, ok := e.X.(*EIdent)
		if !ok {
			ctx.fail("modifies a[i]: a must be a ghost array")
		}
		cur := ctx.termOf(ctx.eval(id))
		idx := ctx.termOf(ctx.eval(e.I))
		_, es, isArr := arrayParts(cur.Sort)
		if !isArr {
			ctx.fail("modifies a[i]: a must be a ghost array")
		}
		name := "GV$" + id.Name
		// current value in the post state (st), index evaluated in the pre state
		now := cur
		if t, ok := st.heap[name]; ok {
			now = t
		}
		heapSorts[name] = cur.Sort
		st.heap[name] = x.define(st, name, Store(now, idx, x.freshConst(st, "mod."+id.Name, es)))
		return
	case *ECall:
		if e.Fun == "contents" && len(e.Args) == 1 {
			tv := ctx.eval(e.Args[0])
			mt, ok := tv.T.Underlying().(*types.Map)
			if tv.T == nil || !ok {
				ctx.fail("contents() needs a map")
			}
			ref := ctx.termOf(tv)
			has, val, ln, ks, vs := x.mapHeaps(mt)
			x.heapSet(st, has, Store(x.heapGet(st, has, ArraySort(ks, SBool)), ref, x.freshConst(st, "mod.has", ArraySort(ks, SBool))))
			x.heapSet(st, val, Store(x.heapGet(st, val, ArraySort(ks, vs)), ref, x.freshConst(st, "mod.val", ArraySort(ks, vs))))
			nl := x.freshConst(st, "mod.len", SInt)
			st.assume(Ge(nl, IntLit(0)), "")
			x.heapSet(st, ln, Store(x.heapGet(st, ln, SInt), ref, nl))
			return
		}
		if e.Fun == "heap" {
			x.havocHeap(st, e.Args[0].(*EStr).V)
			return
		}
		if e.Fun == "everything" {
			f := NewFrameSet()
			f.All = true
			x.applyFrame(st, f)
			return
		}
		ctx.fail("unsupported modifies entry")
	default:
		ctx.fail("unsupported modifies entry")
	}
}

// checkFrame: a declared modifies clause is checked at return.
func (x *Exec) checkFrame(st *State) {
	for _, g := range x.frameGoals(st, nil) {
		x.oblige(st, "frame", g.name, g.goal, "modifies "+strings.TrimSpace(x.fc.ModText))
	}
}

type frameGoal struct {
	name string
	goal *Term
}

// frameGoals: for every heap array that differs from its entry value, "objects allocated at entry and not listed in the
// modifies clause are unchanged". With `only` set, goals are produced for exactly those arrays (loop frame invariants).
func (x *Exec) frameGoals(st *State, only map[string]bool) (out []frameGoal) {
	fc := x.fc
	if fc == nil || !fc.ModDeclared || fc.Trusted {
		return
	}
	// allowed (array name -> refs) from the declared entries, evaluated in the entry state
	allowed := map[string][]*Term{}
	whole := map[string]bool{}
	ctx := x.ctxFor(x.entry, x.entry, nil)
	for _, m := range fc.Modifies {
		func() {
			defer func() {
				if r := recover(); r != nil {
					if _, ok := r.(evalError); ok {
						return
					}
					panic(r)
				}
			}()
			switch e := m.(type) {
			case *EField:
				base := ctx.eval(e.X)
				pt, ok := base.T.Underlying().(*types.Pointer)
				if !ok {
					return
				}
				bt := pt.Elem()
				ref := ctx.termOf(base)
				if _, ok := ctx.ghostField(bt, e.Name); ok {
					allowed[ghostHeapName(bt, e.Name)] = append(allowed[ghostHeapName(bt, e.Name)], ref)
					return
				}
				stt := bt.Underlying().(*types.Struct)
				ss := x.prog.sortOf(bt)
				for i := 0; i < stt.NumFields(); i++ {
					if e.Name == "all" || stt.Field(i).Name() == e.Name {
						n := heapFieldName(ss, stt.Field(i).Name())
						allowed[n] = append(allowed[n], ref)
					}
				}
			case *EIdent:
				// a captured variable of the closure under verification: its cell may be written
				captured := false
				for i, fv := range x.fn.FreeVars {
					if fv.Name() == e.Name || x.prog.baseFreeVarName(x.fn, i) == e.Name {
						if p, ok := x.entry.regs[fv].(*Ptr); ok && p.Ref != nil {
							if pt, ok := fv.Type().Underlying().(*types.Pointer); ok {
								n := heapCellName(x.prog.sortOf(pt.Elem()))
								allowed[n] = append(allowed[n], p.Ref)
								captured = true
							}
						}
					}
				}
				if captured {
					return
				}
				tv := ctx.eval(e)
				if tv.T != nil {
					if mt, ok := tv.T.Underlying().(*types.Map); ok {
						has, val, ln, _, _ := x.mapHeaps(mt)
						ref := ctx.termOf(tv)
						for _, n := range []string{has, val, ln} {
							allowed[n] = append(allowed[n], ref)
						}
						return
					}
				}
				whole["GV$"+e.Name] = true
			case *EIndex:
				if id, ok := e.X.(*EIdent); ok {
					allowed["GV$"+id.Name] = append(allowed["GV$"+id.Name], ctx.termOf(ctx.eval(e.I)))
				}
			case *ECall:
				if e.Fun == "contents" && len(e.Args) == 1 {
					tv := ctx.eval(e.Args[0])
					if tv.T != nil {
						if mt, ok := tv.T.Underlying().(*types.Map); ok {
							has, val, ln, _, _ := x.mapHeaps(mt)
							ref := ctx.termOf(tv)
							for _, n := range []string{has, val, ln} {
								allowed[n] = append(allowed[n], ref)
							}
						}
					}
				}
				if e.Fun == "heap" {
					whole[e.Args[0].(*EStr).V] = true
				}
				if e.Fun == "everything" {
					whole["*"] = true
				}
			}
		}()
	}
	for _, g := range fc.GhostSets {
		func() {
			defer func() {
				if r := recover(); r != nil {
					if _, ok := r.(evalError); ok {
						return
					}
					panic(r)
				}
			}()
			switch e := g.LHS.(type) {
			case *EIdent:
				whole["GV$"+e.Name] = true
			case *EIndex:
				if id, ok := e.X.(*EIdent); ok {
					whole["GV$"+id.Name] = true
				}
			case *EField:
				base := ctx.eval(e.X)
				if pt, ok := base.T.Underlying().(*types.Pointer); ok {
					n := ghostHeapName(pt.Elem(), e.Name)
					allowed[n] = append(allowed[n], ctx.termOf(base))
				}
			}
		}()
	}
	if whole["*"] {
		return
	}
	names := make([]string, 0, len(st.heap))
	for n := range st.heap {
		if only == nil || only[n] {
			names = append(names, n)
		}
	}
	sort.Strings(names)
	for _, n := range names {
		if whole[n] || strings.HasPrefix(n, "C$") || isGhostName(n) || isExternalHeap(n) {
			continue
		}
		x.prog.U.AddFun(&FunDecl{Name: n + "@pre", Ret: heapSorts[n]})
		cur := st.heap[n]
		s := heapSorts[n]
		k, es, isArr := arrayParts(s)
		var pre *Term
		if p, ok := x.entry.heap[n]; ok {
			pre = p
		} else {
			pre = Const(n+"@pre", s)
		}
		if cur == pre {
			continue
		}
		if !isArr || k != SInt {
			out = append(out, frameGoal{n, Eq(cur, pre)})
			continue
		}
		_ = es
		r := &Term{Kind: KApp, Op: "r!f", Sort: SInt}
		var notAllowed []*Term
		for _, a := range allowed[n] {
			notAllowed = append(notAllowed, Not(Eq(r, a)))
		}
		// only objects allocated at entry count (fresh objects are invisible to the caller)
		cond := And(append(notAllowed, Select(Const("alloc@pre", ArraySort(SInt, SBool)), r))...)
		goal := Forall([]BVar{{"r!f", SInt}}, Implies(cond, Eq(Select(cur, r), Select(pre, r))))
		out = append(out, frameGoal{n, goal})
	}
	return out
}

// ---------------------------------------------------------------------------
// interface method calls

func (x *Exec) invoke(st *State, in ssa.Instruction, c *ssa.CallCommon, recv *Term, args []Value, resT types.Type) Value {
	recvT := c.Value.Type()
	key := ifaceMethodKey(recvT, c.Method.Name())
	if fc, ok := x.prog.Contracts[key]; ok {
		x.externsUsed[key] = true
		all := append([]Value{recv}, args...)
		return x.applyContract(st, in, fc, nil, ifaceSig(c), nil, all, resT, shortFuncName(key))
	}
	// closed world over module implementations whose methods have contracts
	if moduleInterface(recvT) {
		iface := recvT.Underlying().(*types.Interface)
		var impls []types.Type
		for _, t := range x.prog.concreteTypes() {
			if types.Implements(t, iface) {
				impls = append(impls, t)
			}
		}
		allHave := len(impls) > 0
		for _, t := range impls {
			m := x.prog.SSA.LookupMethod(t, c.Method.Pkg(), c.Method.Name())
			if m == nil {
				allHave = false
				break
			}
			if _, ok := x.prog.Contracts[funcKey(m)]; !ok {
				allHave = false
			}
		}
		if allHave {
			mutating := false
			for _, t := range impls {
				m := x.prog.SSA.LookupMethod(t, c.Method.Pkg(), c.Method.Name())
				fc := x.prog.Contracts[funcKey(m)]
				if !(fc.ModDeclared && len(fc.Modifies) == 0) || len(fc.GhostSets) > 0 {
					mutating = true
				}
			}
			if mutating {
				// one path per implementation, each with the implementation's own (object-specific) contract
				var res Value
				for i, t := range impls {
					m := x.prog.SSA.LookupMethod(t, c.Method.Pkg(), c.Method.Name())
					fc := x.prog.Contracts[funcKey(m)]
					cur := st
					if i < len(impls)-1 {
						cur = st.clone()
					}
					cur.assume(Eq(itag(recv), IntLit(x.prog.tagOf(t))), "dynamic type is "+t.String())
					cur.trace = append(cur.trace, x.where(in)+": "+c.Method.Name()+" on "+t.String())
					rv := x.unboxAs(recv, t)
					all := append([]Value{rv}, args...)
					r := x.applyContract(cur, in, fc, m, m.Signature, nil, all, resT, shortFuncName(funcKey(m)))
					if cur != st {
						if val, ok := in.(ssa.Value); ok && r != nil {
							cur.regs[val] = r
						}
						x.pendingForks = append(x.pendingForks, cur)
					} else {
						res = r
					}
				}
				return res
			}
			// result: fresh; for each implementation: tag == T ==> ensures
			res := x.freshResult(st, c.Method.Name(), resT)
			var tagAlts []*Term
			frame := NewFrameSet()
			pre := st.clone()
			for _, t := range impls {
				m := x.prog.SSA.LookupMethod(t, c.Method.Pkg(), c.Method.Name())
				fc := x.prog.Contracts[funcKey(m)]
				if !(fc.ModDeclared && len(fc.Modifies) == 0) {
					frame.union(x.prog.writeSet(m))
				}
				_ = fc
				tagAlts = append(tagAlts, Eq(itag(recv), IntLit(x.prog.tagOf(t))))
			}
			x.applyFrame(st, frame)
			for _, t := range impls {
				m := x.prog.SSA.LookupMethod(t, c.Method.Pkg(), c.Method.Name())
				fc := x.prog.Contracts[funcKey(m)]
				vars := map[string]TV{}
				rv := x.unboxAs(recv, t)
				all := append([]Value{rv}, args...)
				for i, a := range all {
					if i < len(m.Params) {
						tv := TV{V: a, T: m.Params[i].Type(), S: x.prog.sortOf(m.Params[i].Type())}
						vars[m.Params[i].Name()] = tv
						if i < len(fc.Params) {
							vars[fc.Params[i]] = tv
						}
					}
				}
				if res != nil {
					if tup, ok := res.(Tuple); ok {
						for i, v := range tup {
							if i < len(fc.Results) {
								rt := resT.(*types.Tuple).At(i).Type()
								vars[fc.Results[i]] = TV{V: v, T: rt, S: x.prog.sortOf(rt)}
							}
						}
					} else {
						tv := TV{V: res, T: resT, S: x.prog.sortOf(resT)}
						if len(fc.Results) > 0 {
							vars[fc.Results[0]] = tv
						}
						vars["result"] = tv
					}
				}
				ctx := &EvalCtx{x: x, prog: x.prog, st: st, old: pre, vars: vars, pkg: m.Pkg.Pkg, noLocals: true}
				isT := Eq(itag(recv), IntLit(x.prog.tagOf(t)))
				for _, cl := range fc.Requires {
					rt := x.evalClauseAt(&EvalCtx{x: x, prog: x.prog, st: pre, old: pre, vars: vars, pkg: m.Pkg.Pkg, noLocals: true}, cl)
					x.oblige(st, "pre", fmt.Sprintf("%s.%s#%d", c.Method.Name(), cl.Label, x.callOrd[in]), Implies(isT, rt), cl.Text)
				}
				for _, cl := range fc.Ensures {
					st.assume(Implies(isT, x.evalClauseAt(ctx, cl)), "ensures of "+shortFuncName(funcKey(m))+" ["+cl.Label+"]")
				}
			}
			st.assume(Or(tagAlts...), "closed world: dynamic type is one of the module implementations (non-nil receiver)")
			return res
		}
	}
	// unknown interface method: havoc per frames
	x.abstr["invoke "+shortFuncName(key)] = true
	frame := NewFrameSet()
	cells := map[*ssa.Alloc]bool{}
	x.staticCallFrame(in.(ssa.CallInstruction), nil, cells, frame)
	for _, a := range args {
		if p, ok := a.(*Ptr); ok && p.Cell != nil {
			x.havocPointee(st, p)
		}
	}
	x.applyFrame(st, frame)
	return x.freshResult(st, c.Method.Name(), resT)
}

func ifaceSig(c *ssa.CallCommon) *types.Signature {
	sig := c.Method.Type().(*types.Signature)
	// build a signature with the interface as receiver so that parameter typing is [recv, params...]
	recv := types.NewVar(0, nil, "recv", c.Value.Type())
	return types.NewSignatureType(recv, nil, nil, sig.Params(), sig.Results(), sig.Variadic())
}

// ---------------------------------------------------------------------------
// builtins

func (x *Exec) builtin(st *State, in ssa.Instruction, c *ssa.CallCommon, b *ssa.Builtin, args []Value) Value {
	switch b.Name() {
	case "len", "cap":
		t := x.toTerm(st, args[0], c.Args[0].Type())
		switch u := c.Args[0].Type().Underlying().(type) {
		case *types.Basic:
			return StrLen(t)
		case *types.Slice:
			if b.Name() == "cap" {
				r := x.freshConst(st, "cap", SInt)
				st.assume(Ge(r, x.sliceLen(t)), "cap >= len")
				return r
			}
			return x.sliceLen(t)
		case *types.Map:
			l := x.mapLen(st, u, t)
			st.assume(Ge(l, IntLit(0)), "")
			// len == 0 iff no key present
			ks := x.prog.sortOf(u.Key())
			kq := &Term{Kind: KApp, Op: "k!l", Sort: ks}
			st.assume(Eq(Eq(l, IntLit(0)), Forall([]BVar{{"k!l", ks}}, Not(Select(x.mapHas(st, u, t), kq)))), "empty map has no keys")
			return l
		case *types.Array:
			return IntLit(u.Len())
		case *types.Pointer:
			if a, ok := u.Elem().Underlying().(*types.Array); ok {
				return IntLit(a.Len())
			}
		case *types.Chan:
			r := x.freshConst(st, "chanlen", SInt)
			st.assume(Ge(r, IntLit(0)), "")
			return r
		}
		x.unsupported("len of %s", c.Args[0].Type())
	case "append":
		s := x.toTerm(st, args[0], c.Args[0].Type())
		if len(args) == 1 {
			return s
		}
		at := c.Args[1].Type()
		if bt, ok := at.Underlying().(*types.Basic); ok && bt.Info()&types.IsString != 0 {
			// append([]byte, string...)
			x.prog.declBytesOf()
			str := x.toTerm(st, args[1], at)
			return x.appendArr(st, s, SymApp("bytesOf", ArraySort(SInt, SInt), str), StrLen(str))
		}
		o := x.toTerm(st, args[1], at)
		return x.appendArr(st, s, x.sliceArr(o), x.sliceLen(o))
	case "copy":
		x.abstr["builtin copy"] = true
		f := NewFrameSet()
		f.All = true
		x.applyFrame(st, f)
		return x.freshValue(st, "copied", types.Typ[types.Int])
	case "delete":
		mt := c.Args[0].Type().Underlying().(*types.Map)
		m := x.toTerm(st, args[0], c.Args[0].Type())
		k := x.toTerm(st, args[1], mt.Key())
		has, _, ln, ks, _ := x.mapHeaps(mt)
		hasArr := x.heapGet(st, has, ArraySort(ks, SBool))
		lnArr := x.heapGet(st, ln, SInt)
		wasIn := Select(selectS(hasArr, m), k)
		x.heapSet(st, ln, Store(lnArr, m, Ite(wasIn, Sub(selectS(lnArr, m), IntLit(1)), selectS(lnArr, m))))
		x.heapSet(st, has, Store(hasArr, m, Store(selectS(hasArr, m), k, False)))
		return nil
	case "close":
		ch := x.toTerm(st, args[0], c.Args[0].Type())
		x.closeChan(st, in, ch)
		return nil
	case "ssa:deferstack":
		return IntLit(0)
	case "ssa:wrapnilchk":
		return args[0]
	case "print", "println":
		return nil
	case "min", "max":
		a := x.toTerm(st, args[0], c.Args[0].Type())
		for _, o := range args[1:] {
			bT := x.toTerm(st, o, c.Args[0].Type())
			if b.Name() == "min" {
				a = Ite(Le(a, bT), a, bT)
			} else {
				a = Ite(Ge(a, bT), a, bT)
			}
		}
		return a
	case "panic":
		x.safeOb(st, in, False, "explicit panic unreachable")
		st.dead = true
		return nil
	case "recover":
		return x.prog.zeroOfSort(SIface)
	case "clear":
		f := NewFrameSet()
		f.All = true
		x.applyFrame(st, f)
		return nil
	}
	x.unsupported("builtin %s", b.Name())
	return nil
}

// appendArr: append elements (arr[0..n)) to slice s. A fresh backing array is modelled (no aliasing, A-slice).
func (x *Exec) appendArr(st *State, s, arr, n *Term) *Term {
	sl := x.sliceLen(s)
	sa := x.sliceArr(s)
	if n.Kind == KIntLit && n.Int <= 8 {
		cur := sa
		for i := int64(0); i < n.Int; i++ {
			cur = Store(cur, Add(sl, IntLit(i)), selectS(arr, IntLit(i)))
		}
		return x.define(st, "append", x.mkSlice(s.Sort, cur, Add(sl, n)))
	}
	// general case: a named append function of the two (array, length) pairs, characterised by axioms
	name := "append$" + sortMangle(s.Sort)
	if _, ok := x.prog.U.Funs[name]; !ok {
		x.prog.declAppend(name, s.Sort, sa.Sort)
	}
	other := x.mkSlice(s.Sort, arr, n)
	return x.define(st, "append", SymApp(name, s.Sort, s, other))
}


// isValueType: values of this type carry no references into the heap.
func isValueType(t types.Type) bool {
	switch u := t.Underlying().(type) {
	case *types.Basic:
		return u.Kind() != types.UnsafePointer
	case *types.Slice:
		return isValueType(u.Elem())
	case *types.Array:
		return isValueType(u.Elem())
	case *types.Struct:
		for i := 0; i < u.NumFields(); i++ {
			if !isValueType(u.Field(i).Type()) {
				return false
			}
		}
		return true
	}
	return false
}

// functionalResult: a pure function of value-typed arguments returns the same results for the same arguments;
// its results are applications of per-function result symbols.
func (x *Exec) functionalResult(st *State, fc *FuncContract, ptypes []types.Type, args []Value, resT types.Type) Value {
	if !fc.Pure || len(args) != len(ptypes) || len(fc.Allocates) > 0 || len(fc.GhostSets) > 0 {
		return nil
	}
	if x.prog.contractReadsState(fc) {
		// the results may depend on ghost or heap state (file system, globals): two calls are not interchangeable
		return nil
	}
	for _, t := range ptypes {
		if !isValueType(t) {
			return nil
		}
	}
	var rts []types.Type
	if tup, ok := resT.(*types.Tuple); ok {
		if tup.Len() == 0 {
			return nil
		}
		for i := 0; i < tup.Len(); i++ {
			rts = append(rts, tup.At(i).Type())
		}
	} else {
		rts = []types.Type{resT}
	}
	for _, t := range rts {
		if !isValueType(t) {
			if _, isIface := t.Underlying().(*types.Interface); !isIface {
				return nil
			}
		}
	}
	var at []*Term
	var params []BVar
	for i, a := range args {
		t := x.toTerm(st, a, ptypes[i])
		at = append(at, t)
		params = append(params, BVar{fmt.Sprintf("a%d", i), t.Sort})
	}
	var out Tuple
	for i, t := range rts {
		name := fmt.Sprintf("res$%s$%d", sanitize(shortFuncName(fc.Key)), i)
		s := x.prog.sortOf(t)
		x.prog.U.AddFun(&FunDecl{Name: name, Params: params, Ret: s})
		r := x.define(st, "ret."+lastName(shortFuncName(fc.Key)), SymApp(name, s, at...))
		x.assumeTypeInv(st, r, t)
		out = append(out, x.fromTerm(r, t))
	}
	if _, ok := resT.(*types.Tuple); ok {
		return out
	}
	return out[0]
}

// applyGhostSets performs the ghost assignments of a contract in state st (ctx evaluates in st, old() in ctx.old).
func (x *Exec) applyGhostSets(st *State, fc *FuncContract, ctx *EvalCtx) {
	for _, g := range fc.GhostSets {
		func() {
			defer func() {
				if r := recover(); r != nil {
					if e, ok := r.(evalError); ok {
						panic(unsupported{fmt.Sprintf("ghostset %s (%s:%d): %s", g.Text, g.File, g.Line, e.msg)})
					}
					panic(r)
				}
			}()
			rhs := ctx.termOf(ctx.eval(g.RHS))
			x.ghostAssign(st, ctx, g.LHS, rhs)
		}()
	}
}

func (x *Exec) ghostAssign(st *State, ctx *EvalCtx, lhs Expr, rhs *Term) {
	switch e := lhs.(type) {
	case *EIdent:
		name := "GV$" + e.Name
		cur := ctx.termOf(ctx.eval(e)) // registers the sort
		if cur.Sort != rhs.Sort {
			ctx.fail("ghostset: sort mismatch %s vs %s", cur.Sort, rhs.Sort)
		}
		heapSorts[name] = rhs.Sort
		st.heap[name] = x.define(st, name, rhs)
	case *EIndex:
		id, ok := e.X.(*EIdent)
		if !ok {
			ctx.fail("ghostset a[i] := e needs a ghost array a")
		}
		name := "GV$" + id.Name
		cur := ctx.termOf(ctx.eval(id))
		idx := ctx.termOf(ctx.eval(e.I))
		heapSorts[name] = cur.Sort
		st.heap[name] = x.define(st, name, Store(cur, idx, rhs))
	case *EField:
		base := ctx.eval(e.X)
		if base.T == nil {
			ctx.fail("ghostset needs a typed base")
		}
		pt, ok := base.T.Underlying().(*types.Pointer)
		if !ok {
			ctx.fail("ghostset base must be a pointer")
		}
		gs, ok := ctx.ghostField(pt.Elem(), e.Name)
		if !ok {
			ctx.fail("no ghost field %s on %s", e.Name, pt.Elem())
		}
		if gs != rhs.Sort {
			ctx.fail("ghostset: sort mismatch %s vs %s", gs, rhs.Sort)
		}
		name := ghostHeapName(pt.Elem(), e.Name)
		cur := x.heapGet(st, name, gs)
		x.heapSet(st, name, Store(cur, ctx.termOf(base), rhs))
	default:
		ctx.fail("unsupported ghostset target")
	}
}

// ghostSetFrame adds the ghost arrays assigned by a contract's ghostsets (statically).
func (x *Exec) ghostSetFrame(f *ssa.Function, fc *FuncContract, frame *FrameSet) {
	// ghost variables named in the modifies clause
	for _, m := range fc.Modifies {
		switch e := m.(type) {
		case *EIdent:
			if _, isGhost := heapSorts["GV$"+e.Name]; isGhost || x.prog.isGhostVar(e.Name) {
				frame.Names["GV$"+e.Name] = true
			}
		case *EIndex:
			if id, ok := e.X.(*EIdent); ok && x.prog.isGhostVar(id.Name) {
				frame.Names["GV$"+id.Name] = true
			}
		}
	}
	for _, g := range fc.GhostSets {
		switch e := g.LHS.(type) {
		case *EIdent:
			frame.Names["GV$"+e.Name] = true
		case *EIndex:
			if id, ok := e.X.(*EIdent); ok {
				frame.Names["GV$"+id.Name] = true
			}
		case *EField:
			bt := x.staticExprType(f, fc, e.X)
			if bt == nil {
				// unknown base (e.g. a captured variable): every declared ghost field of that name
				found := false
				for _, g := range x.prog.Spec.Ghosts {
					if g.Name == e.Name {
						if gt, err := x.prog.lookupType(g.TypeText, nil); err == nil {
							frame.Names[ghostHeapName(gt, e.Name)] = true
							found = true
						}
					}
				}
				if !found {
					frame.All = true
					frame.GhostAll = true
				}
				continue
			}
			if pt, ok := bt.Underlying().(*types.Pointer); ok {
				bt = pt.Elem()
			}
			frame.Names[ghostHeapName(bt, e.Name)] = true
		}
	}
}

func isGhostName(n string) bool { return strings.HasPrefix(n, "GV$") || strings.HasPrefix(n, "GH$") }

// writesFreeVar: does fn (or a closure it creates that captures the same cell) store through the captured cell fv?
func writesFreeVar(fn *ssa.Function, fv *ssa.FreeVar, depth int) bool {
	if depth > 4 {
		return true
	}
	rootIs := func(v ssa.Value) bool {
		for {
			switch a := v.(type) {
			case *ssa.FreeVar:
				return a == fv
			case *ssa.FieldAddr:
				v = a.X
			case *ssa.IndexAddr:
				v = a.X
			default:
				return false
			}
		}
	}
	for _, b := range fn.Blocks {
		for _, in := range b.Instrs {
			switch v := in.(type) {
			case *ssa.Store:
				if rootIs(v.Addr) {
					return true
				}
			case *ssa.MakeClosure:
				inner := v.Fn.(*ssa.Function)
				for i, bind := range v.Bindings {
					if bind == ssa.Value(fv) && i < len(inner.FreeVars) && writesFreeVar(inner, inner.FreeVars[i], depth+1) {
						return true
					}
				}
			case ssa.CallInstruction:
				// the cell's address passed to a callee
				for _, a := range v.Common().Args {
					if rootIs(a) {
						if _, isPtr := a.Type().Underlying().(*types.Pointer); isPtr {
							return true
						}
					}
				}
			}
		}
	}
	return false
}

// localClosures: if v is a load of a local variable that only ever holds closures created in the same function,
// return those closures.
func localClosures(v ssa.Value) []*ssa.Function {
	if mc, ok := v.(*ssa.MakeClosure); ok {
		return []*ssa.Function{mc.Fn.(*ssa.Function)}
	}
	u, ok := v.(*ssa.UnOp)
	if !ok {
		return nil
	}
	a, ok := u.X.(*ssa.Alloc)
	if !ok {
		// a variable captured from the enclosing function: resolve it there (the variable must only ever hold
		// closures of the enclosing function, and this closure must not assign it)
		fv, isFV := u.X.(*ssa.FreeVar)
		if !isFV || fv.Parent() == nil || fv.Parent().Parent() == nil {
			return nil
		}
		inner := fv.Parent()
		idx := -1
		for i, f := range inner.FreeVars {
			if f == fv {
				idx = i
			}
		}
		if idx < 0 || writesFreeVar(inner, fv, 0) {
			return nil
		}
		for _, b := range inner.Parent().Blocks {
			for _, in := range b.Instrs {
				if mc, ok := in.(*ssa.MakeClosure); ok && mc.Fn == ssa.Value(inner) && idx < len(mc.Bindings) {
					if pa, ok := mc.Bindings[idx].(*ssa.Alloc); ok {
						return localClosures(&ssa.UnOp{X: pa})
					}
				}
			}
		}
		return nil
	}
	var out []*ssa.Function
	refs := a.Referrers()
	if refs == nil {
		return nil
	}
	for _, r := range *refs {
		switch w := r.(type) {
		case *ssa.Store:
			if w.Addr != ssa.Value(a) {
				return nil
			}
			switch val := w.Val.(type) {
			case *ssa.MakeClosure:
				out = append(out, val.Fn.(*ssa.Function))
			case *ssa.Function:
				out = append(out, val)
			default:
				return nil
			}
		case *ssa.UnOp, *ssa.DebugRef:
		case *ssa.MakeClosure:
			// captured by another closure: it could be reassigned there; check that closure does not store to it
			inner := w.Fn.(*ssa.Function)
			for i, b := range w.Bindings {
				if b == ssa.Value(a) && i < len(inner.FreeVars) && writesFreeVar(inner, inner.FreeVars[i], 0) {
					return nil
				}
			}
		default:
			return nil
		}
	}
	return out
}

func rootIsFreeVar(v ssa.Value) bool {
	for {
		switch a := v.(type) {
		case *ssa.FreeVar:
			return true
		case *ssa.FieldAddr:
			v = a.X
		case *ssa.IndexAddr:
			v = a.X
		default:
			return false
		}
	}
}

// declAppend declares append$S(s, t) with its defining axioms (length and elements).
func (p *Program) declAppend(name string, ss, as Sort) {
	p.U.AddFun(&FunDecl{Name: name, Params: []BVar{{"s", ss}, {"t", ss}}, Ret: ss})
	sv := &Term{Kind: KApp, Op: "s", Sort: ss}
	tv := &Term{Kind: KApp, Op: "t", Sort: ss}
	iv := &Term{Kind: KApp, Op: "i", Sort: SInt}
	app := SymApp(name, ss, sv, tv)
	ln := func(t *Term) *Term { return App(string(ss)+"$len", SInt, t) }
	ar := func(t *Term) *Term { return App(string(ss)+"$arr", as, t) }
	p.U.Axioms = append(p.U.Axioms, &Axiom{Name: name + "_len", T: Forall([]BVar{{"s", ss}, {"t", ss}},
		Eq(ln(app), Add(ln(sv), ln(tv))), []*Term{app})})
	p.U.Axioms = append(p.U.Axioms, &Axiom{Name: name + "_elems", T: Forall([]BVar{{"s", ss}, {"t", ss}, {"i", SInt}},
		And(Implies(And(Ge(iv, IntLit(0)), Lt(iv, ln(sv))), Eq(Select(ar(app), iv), Select(ar(sv), iv))),
			Implies(And(Ge(iv, ln(sv)), Lt(iv, Add(ln(sv), ln(tv)))), Eq(Select(ar(app), iv), Select(ar(tv), Sub(iv, ln(sv)))))),
		[]*Term{Select(ar(app), iv)})})
	// the same facts, triggered from the operand side (needed to show membership in the result)
	p.U.Axioms = append(p.U.Axioms, &Axiom{Name: name + "_left", T: Forall([]BVar{{"s", ss}, {"t", ss}, {"i", SInt}},
		Implies(And(Ge(iv, IntLit(0)), Lt(iv, ln(sv))), Eq(Select(ar(app), iv), Select(ar(sv), iv))),
		[]*Term{app, Select(ar(sv), iv)})})
	p.U.Axioms = append(p.U.Axioms, &Axiom{Name: name + "_right", T: Forall([]BVar{{"s", ss}, {"t", ss}, {"i", SInt}},
		Implies(And(Ge(iv, IntLit(0)), Lt(iv, ln(tv))), Eq(Select(ar(app), Add(ln(sv), iv)), Select(ar(tv), iv))),
		[]*Term{app, Select(ar(tv), iv)})})
}

func debugStack() string {
	buf := make([]byte, 4096)
	n := runtime.Stack(buf, false)
	lines := strings.Split(string(buf[:n]), "\n")
	var out []string
	for _, l := range lines {
		if strings.Contains(l, "govc/") || strings.HasPrefix(l, "main.") {
			out = append(out, strings.TrimSpace(l))
		}
	}
	if len(out) > 14 {
		out = out[:14]
	}
	return strings.Join(out, "\n")
}

// fnPkgPath: the package path a function belongs to (instantiations of generic functions have no ssa package).
func fnPkgPath(f *ssa.Function) string {
	if f.Pkg != nil {
		return f.Pkg.Pkg.Path()
	}
	if o := f.Origin(); o != nil && o.Pkg != nil {
		return o.Pkg.Pkg.Path()
	}
	if obj := f.Object(); obj != nil && obj.Pkg() != nil {
		return obj.Pkg().Path()
	}
	if par := f.Parent(); par != nil {
		return fnPkgPath(par)
	}
	return ""
}

func fnInModule(f *ssa.Function) bool {
	p := fnPkgPath(f)
	return p == modulePath || strings.HasPrefix(p, modulePath+"/")
}

// applyRely: rely/guarantee interference. Inside functions of a package with a `rely` declaration, the environment-step
// contract is applied (its frame havoced, its postconditions assumed) right before every call whose callee matches: the
// call then observes a state that other processes may have changed within the rely condition.
func (x *Exec) applyRely(st *State, in ssa.Instruction, c *ssa.CallCommon) {
	if x.prog.Spec == nil || len(x.prog.Spec.Relies) == 0 || x.fn == nil {
		return
	}
	pk := fnPkgPath(x.fn)
	for _, r := range x.prog.Spec.Relies {
		if r.Pkg != pk {
			continue
		}
		callee := ""
		if f := c.StaticCallee(); f != nil {
			callee = funcKey(f)
		} else if c.IsInvoke() {
			callee = c.Method.FullName()
		}
		if callee == "" || !r.Callee.MatchString(callee) {
			continue
		}
		fc := x.prog.Contracts[r.Env]
		if fc == nil {
			x.unsupported("rely: environment contract %s not found", r.Env)
		}
		x.externsUsed["rely "+r.Env+": interference by other processes is any sequence of steps satisfying this contract (assume-guarantee; the guarantee side is the before_call obligations of the same package)"] = true
		sig := types.NewSignatureType(nil, nil, nil, types.NewTuple(), types.NewTuple(), false)
		x.applyContract(st, in, fc, nil, sig, nil, nil, types.NewTuple(), "env "+r.Env)
	}
}

// contractReadsState: does any clause of the contract mention state (a ghost variable, a global, a field reached through
// something other than a parameter / result / bound variable, old(), a heap builtin)? Conservative syntactic test.
func (p *Program) contractReadsState(fc *FuncContract) bool {
	if fc.readsStateKnown {
		return fc.readsState
	}
	names := map[string]bool{"result": true}
	for _, n := range fc.Params {
		names[n] = true
	}
	for _, n := range fc.Results {
		names[n] = true
	}
	ghost := map[string]bool{}
	if p.Spec != nil {
		for _, g := range p.Spec.GhostVars {
			ghost[g.Name] = true
		}
	}
	var walk func(e Expr, bound map[string]bool) bool
	rootOK := func(e Expr, bound map[string]bool) bool {
		for {
			switch v := e.(type) {
			case *EField:
				e = v.X
			case *EIndex:
				e = v.X
			case *EIdent:
				return names[v.Name] || bound[v.Name]
			default:
				return false
			}
		}
	}
	walk = func(e Expr, bound map[string]bool) bool {
		switch v := e.(type) {
		case nil:
			return false
		case *EIdent:
			return ghost[v.Name] && !bound[v.Name] && !names[v.Name]
		case *EOld:
			return true
		case *EUnary:
			return walk(v.X, bound)
		case *EBinary:
			return walk(v.X, bound) || walk(v.Y, bound)
		case *EField:
			if !rootOK(v, bound) {
				return true
			}
			return walk(v.X, bound)
		case *EIndex:
			return walk(v.X, bound) || walk(v.I, bound)
		case *ESlice:
			return walk(v.X, bound) || (v.Lo != nil && walk(v.Lo, bound)) || (v.Hi != nil && walk(v.Hi, bound))
		case *ECall:
			switch v.Fun {
			case "heapOf", "deref", "held", "received", "seen", "pos":
				return true
			}
			for _, a := range v.Args {
				if walk(a, bound) {
					return true
				}
			}
			return false
		case *EQuant:
			b2 := map[string]bool{}
			for k := range bound {
				b2[k] = true
			}
			for _, q := range v.Vars {
				b2[q.Name] = true
			}
			return walk(v.Body, b2)
		}
		return false
	}
	r := false
	for _, c := range fc.Ensures {
		if walk(c.E, map[string]bool{}) {
			r = true
		}
	}
	for _, c := range fc.Requires {
		if walk(c.E, map[string]bool{}) {
			r = true
		}
	}
	fc.readsState, fc.readsStateKnown = r, true
	return r
}

// fromEffectFreePkg: is the function value v the result of a call into a pkgframe package (directly, or through a local
// variable that is only ever assigned such results)?
func (x *Exec) fromEffectFreePkg(v ssa.Value, depth int) bool {
	if depth > 4 {
		return false
	}
	switch u := v.(type) {
	case *ssa.Call:
		if f := u.Common().StaticCallee(); f != nil {
			if pk := fnPkgPath(f); pk != "" && x.prog.Spec.PkgFrames[pk] {
				return true
			}
		}
	case *ssa.UnOp:
		if a, ok := u.X.(*ssa.Alloc); ok && u.Op == token.MUL {
			n := 0
			for _, r := range *a.Referrers() {
				if st, ok := r.(*ssa.Store); ok && st.Addr == a {
					n++
					if !x.fromEffectFreePkg(st.Val, depth+1) {
						return false
					}
				}
			}
			return n > 0
		}
	}
	return false
}

// escapingClosures: closures created in the function under verification that are passed to a call outside the module.
func (x *Exec) escapingClosures() []*ssa.Function {
	if x.fn == nil {
		return nil
	}
	if x.escClosures != nil {
		return x.escClosures[x.fn]
	}
	x.escClosures = map[*ssa.Function][]*ssa.Function{}
	var out []*ssa.Function
	seen := map[*ssa.Function]bool{}
	for _, b := range x.fn.Blocks {
		for _, in := range b.Instrs {
			ci, ok := in.(ssa.CallInstruction)
			if !ok {
				continue
			}
			c := ci.Common()
			external := false
			if c.IsInvoke() {
				external = !moduleInterface(c.Value.Type())
			} else if f := c.StaticCallee(); f != nil {
				external = !fnInModule(f) && f.Parent() == nil
			}
			if !external {
				continue
			}
			for _, a := range c.Args {
				for _, fn := range localClosures(a) {
					if !seen[fn] {
						seen[fn] = true
						out = append(out, fn)
					}
				}
			}
		}
	}
	x.escClosures[x.fn] = out
	return out
}

func (p *Program) isGhostVar(name string) bool {
	if p.Spec == nil {
		return false
	}
	for _, g := range p.Spec.GhostVars {
		if g.Name == name {
			return true
		}
	}
	return false
}

// endsInFalse: the contract says the callee does not return (`ensures false`).
func endsInFalse(fc *FuncContract) bool {
	for _, c := range fc.Ensures {
		if strings.TrimSpace(c.Text) == "false" {
			return true
		}
	}
	return false
}

// callsMatching: does fn contain a call whose (static or interface) callee name matches re?
func callsMatching(fn *ssa.Function, re *regexp.Regexp) bool {
	for _, b := range fn.Blocks {
		for _, in := range b.Instrs {
			ci, ok := in.(ssa.CallInstruction)
			if !ok {
				continue
			}
			c := ci.Common()
			callee := ""
			if f := c.StaticCallee(); f != nil {
				callee = funcKey(f)
			} else if c.IsInvoke() {
				callee = c.Method.FullName()
			}
			if callee != "" && re.MatchString(callee) {
				return true
			}
		}
	}
	return false
}
