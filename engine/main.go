package main

import (
	"bufio"
	"encoding/json"
	"flag"
	"fmt"
	"os"
	"path/filepath"
	"regexp"
	"runtime"
	"sort"
	"strconv"
	"strings"
	"time"

	"golang.org/x/tools/go/ssa"
)

type PropSpec struct {
	ID         string
	Packages   []string
	Contracted []string // package paths: verify every function with a contract
	Functions  []string
	Lemmas     []string
	Sweep      []string
	PreSweep   []string
	Level      string
	Explain    []string
	Assume     []string
	Trusted    []string
	Bounded    []string
	Replays    map[string]string // obligation regexp -> replay driver name
	NoClaim    []string          // obligation regexps that are attempted but not claimed
	Specs      []string          // spec files to load (base names); empty: all
	Theorems   []string          // theorem names to prove in this property (or "all")
	Claim      []string          // if set: only obligations matching one of these regexps belong to this property
}

func readProp(path string) (*PropSpec, error) {
	f, err := os.Open(path)
	if err != nil {
		return nil, err
	}
	defer f.Close()
	ps := &PropSpec{Level: "other", Replays: map[string]string{}}
	sc := bufio.NewScanner(f)
	for sc.Scan() {
		l := strings.TrimSpace(sc.Text())
		if l == "" || strings.HasPrefix(l, "#") {
			continue
		}
		kw, rest := firstWord(l)
		switch kw {
		case "packages":
			ps.Packages = append(ps.Packages, strings.Fields(rest)...)
		case "contracted":
			ps.Contracted = append(ps.Contracted, strings.Fields(rest)...)
		case "function":
			ps.Functions = append(ps.Functions, rest)
		case "lemma":
			ps.Lemmas = append(ps.Lemmas, strings.Fields(rest)...)
		case "sweep":
			ps.Sweep = append(ps.Sweep, strings.Fields(rest)...)
		case "presweep":
			// like sweep, but keeps the call-site preconditions instead of the safety obligations: every function of the
			// package, including ones without a contract (e.g. introduced by a refactoring), must establish the
			// preconditions of the contracted functions it calls
			ps.PreSweep = append(ps.PreSweep, strings.Fields(rest)...)
		case "level":
			ps.Level = rest
		case "explain":
			ps.Explain = append(ps.Explain, rest)
		case "assume":
			ps.Assume = append(ps.Assume, rest)
		case "trusted":
			ps.Trusted = append(ps.Trusted, rest)
		case "bounded":
			ps.Bounded = append(ps.Bounded, rest)
		case "claim":
			ps.Claim = append(ps.Claim, rest)
		case "theorems":
			ps.Theorems = append(ps.Theorems, strings.Fields(rest)...)
		case "specs":
			ps.Specs = append(ps.Specs, strings.Fields(rest)...)
		case "noclaim":
			ps.NoClaim = append(ps.NoClaim, rest)
		case "replay":
			a, b := firstWord(rest)
			ps.Replays[a] = b
		default:
			return nil, fmt.Errorf("%s: unknown directive %q", path, kw)
		}
	}
	return ps, sc.Err()
}

type Finding struct {
	Kind       string // finding | fixed
	Property   string
	Obligation string
	Text       string
	Commit     string
}

func readFindings(path string) ([]Finding, error) {
	data, err := os.ReadFile(path)
	if err != nil {
		if os.IsNotExist(err) {
			return nil, nil
		}
		return nil, err
	}
	var out []Finding
	re := regexp.MustCompile(`^(finding|fixed):\s+property=(\S+)\s+(?:commit=(\S+)\s+)?obligation=(\S+)\s+(?:--|—)\s*(.*)$`)
	for _, l := range strings.Split(string(data), "\n") {
		l = strings.TrimSpace(l)
		if l == "" || strings.HasPrefix(l, "#") {
			continue
		}
		m := re.FindStringSubmatch(l)
		if m == nil {
			return nil, fmt.Errorf("known_findings: cannot parse %q", l)
		}
		out = append(out, Finding{Kind: m[1], Property: m[2], Commit: m[3], Obligation: m[4], Text: m[5]})
	}
	return out, nil
}

var ordinalRe = regexp.MustCompile(`#\d+`)

// claimKey: the name under which an obligation is claimed in the baseline. Ordinals of call sites, guarded accesses and
// sends are dropped (every site of that kind in the function is claimed); the zero-annotation safety obligations of a
// function are claimed as a whole (any failing one is a violation, however the instructions are numbered).
func claimKey(o *Obligation) string {
	switch o.Kind {
	case "safe":
		i := strings.LastIndex(o.Name, ":safe[")
		if i >= 0 {
			return o.Name[:i] + ":safe"
		}
	case "pre", "spawn", "guard", "chan", "crash":
		return ordinalRe.ReplaceAllString(o.Name, "")
	}
	return o.Name
}

// missingIsViolation: a claimed key for which no obligation is generated any more.
func missingIsViolation(key string) bool {
	for _, k := range []string{":safe", ":pre[", ":spawn[", ":guard[", ":chan[", ":crash[", ":frame[", ":vacuity[", ":cover[after:"} {
		if strings.Contains(key, k) {
			return false // the function, call site or access was removed: nothing left that could violate the clause
		}
	}
	return true
}

func readLines(path string) []string {
	data, err := os.ReadFile(path)
	if err != nil {
		return nil
	}
	var out []string
	for _, l := range strings.Split(string(data), "\n") {
		l = strings.TrimSpace(l)
		if l != "" && !strings.HasPrefix(l, "#") {
			out = append(out, l)
		}
	}
	return out
}

func main() {
	// the go tool used by go/packages is looked up through the process environment
	os.Setenv("PATH", "/opt/veriftools/go1.26.8/bin:"+os.Getenv("PATH"))
	os.Setenv("GOTOOLCHAIN", "local")
	if len(os.Args) < 2 {
		fmt.Fprintln(os.Stderr, "usage: govc check|dump ...")
		os.Exit(2)
	}
	switch os.Args[1] {
	case "check":
		os.Exit(cmdCheck(os.Args[2:]))
	case "rename-locals":
		os.Exit(cmdRenameLocals(os.Args[2:]))
	default:
		fmt.Fprintln(os.Stderr, "unknown command", os.Args[1])
		os.Exit(2)
	}
}

func cmdCheck(args []string) int {
	fs := flag.NewFlagSet("check", flag.ExitOnError)
	repo := fs.String("repo", "/repo", "repository directory")
	verif := fs.String("verif", "/verif", "verif directory")
	prop := fs.String("prop", "", "property id")
	tier := fs.String("tier", "quick", "quick|thorough")
	dumpDir := fs.String("dump", "", "keep SMT files in this directory")
	writeBaseline := fs.Bool("write-baseline", false, "write the baseline file from this run (manual use only)")
	only := fs.String("only", "", "only obligations matching this regexp (debugging; no evidence is written)")
	verbose := fs.Bool("v", false, "verbose")
	noEvidence := fs.Bool("no-evidence", false, "do not write the evidence file")
	replayDirFlag := fs.String("replay-dir", "", "directory for replay files (default <verif>/evidence/replay)")
	fs.Parse(args)
	start := time.Now()
	seed := 0
	if s := os.Getenv("VERIF_SEED"); s != "" {
		seed, _ = strconv.Atoi(s)
	}
	ps, err := readProp(filepath.Join(*verif, "specs", "props", *prop+".prop"))
	if err != nil {
		fmt.Fprintln(os.Stderr, "error:", err)
		return 2
	}
	ps.ID = *prop
	prog, err := LoadProgram(*repo, ps.Packages)
	if err != nil {
		fmt.Fprintln(os.Stderr, "error loading repository:", err)
		return 2
	}
	if err := prog.LoadContracts(filepath.Join(*verif, "specs"), ps.Specs); err != nil {
		fmt.Fprintln(os.Stderr, "error in contracts:", err)
		return 2
	}
	if err := prog.RegisterSpecs(); err != nil {
		fmt.Fprintln(os.Stderr, "error in specs:", err)
		return 2
	}
	loadS := time.Since(start).Seconds()

	localsPath := filepath.Join(*verif, "baseline", *prop+".locals")
	if !*writeBaseline {
		prog.readLocalTables(localsPath)
	}
	// functions to verify
	var targets []*ssa.Function
	seen := map[string]bool{}
	var missing []string
	add := func(key string) {
		if seen[key] {
			return
		}
		fn := prog.AllFuncs[key]
		if fn == nil {
			missing = append(missing, key)
			return
		}
		seen[key] = true
		targets = append(targets, fn)
	}
	for _, f := range ps.Functions {
		add(f)
	}
	var ckeys []string
	for k := range prog.Contracts {
		ckeys = append(ckeys, k)
	}
	sort.Strings(ckeys)
	for _, pkgPath := range ps.Contracted {
		for _, k := range ckeys {
			fc := prog.Contracts[k]
			if fc.Pkg == pkgPath && !fc.Extern {
				add(k)
			}
		}
	}
	var obs []*Obligation
	var reports []*FuncReport
	for _, fn := range targets {
		fc := prog.Contracts[funcKey(fn)]
		if fc != nil && fc.Trusted {
			reports = append(reports, &FuncReport{Key: funcKey(fn), Trusted: true})
			if len(fc.CallAsserts) > 0 && len(fn.Blocks) > 0 {
				// a trusted contract (its postconditions are assumed, typically because they only name the result) may still
				// carry call-site assertions about the body: those, and the preconditions of the callees, are checked
				o, _ := VerifyFunction(prog, fn, fc, false)
				for _, ob := range o {
					if ob.Kind == "assert" || ob.Kind == "pre" {
						obs = append(obs, ob)
					}
				}
			}
			continue
		}
		o, rep := VerifyFunction(prog, fn, fc, false)
		obs = append(obs, o...)
		reports = append(reports, rep)
	}
	if os.Getenv("GOVC_LIST_FUNCS") != "" {
		var ks []string
		for k := range prog.AllFuncs {
			if strings.Contains(k, os.Getenv("GOVC_LIST_FUNCS")) {
				ks = append(ks, k)
			}
		}
		sort.Strings(ks)
		for _, k := range ks {
			fmt.Fprintf(os.Stderr, "func %s at %s\n", k, prog.Fset.Position(prog.AllFuncs[k].Pos()))
		}
	}
	// zero-annotation safety sweep
	sweepFns := 0
	for _, pkgPath := range ps.Sweep {
		var keys []string
		for k, fn := range prog.AllFuncs {
			if fn.Pkg != nil && fn.Pkg.Pkg.Path() == pkgPath || fn.Parent() != nil && fn.Parent().Pkg != nil && fn.Parent().Pkg.Pkg.Path() == pkgPath {
				if len(fn.Blocks) > 0 && !seen[k] && fn.Synthetic == "" {
					keys = append(keys, k)
				}
			}
		}
		sort.Strings(keys)
		for _, k := range keys {
			fn := prog.AllFuncs[k]
			if strings.HasPrefix(fn.Name(), "lemma_") || strings.HasPrefix(fn.Name(), "init") {
				continue
			}
			o, rep := VerifyFunction(prog, fn, prog.Contracts[k], true)
			// a sweep is about safety obligations only; functional contracts of swept functions belong to the property
			// that lists the function
			var so []*Obligation
			for _, ob := range o {
				if ob.Kind == "safe" {
					so = append(so, ob)
				}
			}
			o = so
			obs = append(obs, o...)
			reports = append(reports, rep)
			sweepFns++
		}
	}
	for _, pkgPath := range ps.PreSweep {
		var keys []string
		for k, fn := range prog.AllFuncs {
			if fn.Pkg != nil && fn.Pkg.Pkg.Path() == pkgPath || fn.Parent() != nil && fn.Parent().Pkg != nil && fn.Parent().Pkg.Pkg.Path() == pkgPath {
				if len(fn.Blocks) > 0 && !seen[k] && fn.Synthetic == "" && prog.Contracts[k] == nil {
					keys = append(keys, k)
				}
			}
		}
		sort.Strings(keys)
		for _, k := range keys {
			fn := prog.AllFuncs[k]
			if strings.HasPrefix(fn.Name(), "lemma_") || strings.HasPrefix(fn.Name(), "init") {
				continue
			}
			o, rep := VerifyFunction(prog, fn, nil, true)
			for _, ob := range o {
				if ob.Kind == "pre" || ob.Kind == "spawn" {
					obs = append(obs, ob)
				}
			}
			reports = append(reports, rep)
			sweepFns++
		}
	}
	// spec lemmas (listed in the property file, or used by a verified function)
	lemmaSeen := map[string]bool{}
	for _, ln := range ps.Lemmas {
		lemmaSeen[ln] = true
	}
	for _, fn := range targets {
		if fc := prog.Contracts[funcKey(fn)]; fc != nil {
			for _, ln := range fc.Uses {
				if !lemmaSeen[ln] {
					lemmaSeen[ln] = true
					ps.Lemmas = append(ps.Lemmas, ln)
				}
			}
		}
	}
	for _, ln := range ps.Lemmas {
		var lm *SpecLemma
		for _, l := range prog.Spec.Lemmas {
			if l.Name == ln {
				lm = l
			}
		}
		if lm == nil {
			missing = append(missing, "lemma "+ln)
			continue
		}
		ob, err := prog.LemmaObligation(lm)
		if err != nil {
			fmt.Fprintln(os.Stderr, "error:", err)
			return 2
		}
		obs = append(obs, ob)
	}
	for _, th := range prog.Theorems {
		want := false
		for _, n := range ps.Theorems {
			if n == "all" || n == th.Name {
				want = true
			}
		}
		if want {
			obs = append(obs, prog.TheoremObligation(th))
		}
	}
	if len(ps.Claim) > 0 {
		var res []*regexp.Regexp
		for _, c := range ps.Claim {
			res = append(res, regexp.MustCompile(c))
		}
		var f []*Obligation
		for _, o := range obs {
			for _, re := range res {
				if re.MatchString(o.Name) {
					f = append(f, o)
					break
				}
			}
		}
		obs = f
	}
	if *only != "" {
		re := regexp.MustCompile(*only)
		var f []*Obligation
		for _, o := range obs {
			if re.MatchString(o.Name) {
				f = append(f, o)
			}
		}
		obs = f
	}
	if *tier == "quick" && *only == "" {
		// obligations that are attempted but not claimed are only solved in the thorough tier
		var f []*Obligation
		for _, o := range obs {
			skip := false
			for _, r := range ps.NoClaim {
				if ok, _ := regexp.MatchString(r, o.Name); ok {
					skip = true
				}
			}
			if !skip {
				f = append(f, o)
			}
		}
		obs = f
	}
	genS := time.Since(start).Seconds() - loadS

	// solve
	tmp := *dumpDir
	if tmp == "" {
		tmp, err = os.MkdirTemp("", "govc-")
		if err != nil {
			fmt.Fprintln(os.Stderr, "error:", err)
			return 2
		}
		defer os.RemoveAll(tmp)
	} else {
		os.MkdirAll(tmp, 0o755)
	}
	pf := &Portfolio{Dir: tmp, TimeoutMs: 10000, Solvers: []string{"cvc5", "z3-new", "z3"}, Seed: seed}
	if *tier == "thorough" {
		replayTimeout = "900s"
		pf.TimeoutMs = 60000
		pf.All = true
	}
	workers := runtime.NumCPU() / 2
	if workers < 2 {
		workers = 2
	}
	pf.DischargeAll(obs, workers)

	// decide
	findings, err := readFindings(filepath.Join(*verif, "known_findings.txt"))
	if err != nil {
		fmt.Fprintln(os.Stderr, "error:", err)
		return 2
	}
	baselinePath := filepath.Join(*verif, "baseline", *prop+".obligations")
	baseline := map[string]bool{}
	for _, l := range readLines(baselinePath) {
		baseline[l] = true
	}
	known := map[string]Finding{}
	for _, f := range findings {
		if f.Kind == "finding" && f.Property == *prop {
			known[f.Obligation] = f
		}
	}
	noclaim := func(name string) bool {
		for _, r := range ps.NoClaim {
			if ok, _ := regexp.MatchString(r, name); ok {
				return true
			}
		}
		return false
	}
	byName := map[string]*Obligation{}
	for _, o := range obs {
		byName[o.Name] = o
		byName[claimKey(o)] = o
	}
	replayDir := filepath.Join(*verif, "evidence", "replay")
	if *replayDirFlag != "" {
		replayDir = *replayDirFlag
	}
	os.MkdirAll(replayDir, 0o755)
	violations := 0
	var knownPrinted []string
	var attempted []string
	discharged, total := 0, 0
	var obNames []string
	for _, o := range obs {
		obNames = append(obNames, o.Name)
	}
	if *writeBaseline {
		var lines []string
		bad := map[string]bool{}
		for _, o := range obs {
			if o.Status != "discharged" || noclaim(o.Name) {
				bad[claimKey(o)] = true
			}
		}
		seenKey := map[string]bool{}
		for _, o := range obs {
			k := claimKey(o)
			if !bad[k] && !seenKey[k] {
				seenKey[k] = true
				lines = append(lines, k)
			}
		}
		// functions that were verified and have no failing safety obligation (possibly none at all) are claimed safe as a
		// whole: a safety obligation that appears later in such a function and fails is a violation
		for _, r := range reports {
			if r.Trusted || r.OutOfReach != "" {
				continue
			}
			k := shortFuncName(r.Key) + ":safe"
			if bad[k] || seenKey[k] || noclaim(k+"[") {
				continue
			}
			match := len(ps.Claim) == 0
			for _, c := range ps.Claim {
				if ok, _ := regexp.MatchString(c, k+"["); ok {
					match = true
				}
			}
			if match {
				seenKey[k] = true
				lines = append(lines, k)
			}
		}
		sort.Strings(lines)
		os.MkdirAll(filepath.Dir(baselinePath), 0o755)
		os.WriteFile(baselinePath, []byte(strings.Join(lines, "\n")+"\n"), 0o644)
		prog.writeLocalTables(localsPath)
		fmt.Printf("baseline written: %d obligations\n", len(lines))
		for _, l := range lines {
			baseline[l] = true
		}
	}
	report := func(o *Obligation, why string, replayed bool) {
		violations++
		path := filepath.Join(replayDir, *prop+"_"+sanitize(o.Name)+".txt")
		writeReplayFile(path, *prop, o, why)
		suffix := ""
		if !replayed {
			suffix = " no-failing-input-found"
		}
		fmt.Printf("VIOLATION property=%s replay=%s obligation=%s (%s)%s\n", *prop, path, o.Name, why, suffix)
	}
	for _, o := range obs {
		claimed := baseline[claimKey(o)]
		if _, isKnown := known[o.Name]; isKnown {
			if o.Status != "discharged" {
				f := known[o.Name]
				msg := fmt.Sprintf("KNOWN-FINDING: property=%s obligation=%s %s", *prop, o.Name, f.Text)
				fmt.Println(msg)
				knownPrinted = append(knownPrinted, msg)
			} else {
				knownPrinted = append(knownPrinted, fmt.Sprintf("listed finding no longer reproduces: %s", o.Name))
			}
			continue
		}
		if !claimed && (o.Kind == "pre" || o.Kind == "spawn" || o.Kind == "guard" || o.Kind == "crash" || o.Kind == "vacuity") && o.Status != "discharged" && !noclaim(o.Name) && len(baseline) > 0 {
			// a call site, spawn or guarded access that is new relative to the baseline and violates the callee's
			// precondition / the lock discipline: claimed implicitly (otherwise a new bad call site would go unnoticed)
			claimed = true
		}
		if !claimed && o.Kind == "chan" && o.Status != "discharged" && !noclaim(o.Name) && len(baseline) > 0 {
			// a function declared `nonblocking` (it runs with locks held): a new channel send in its own body that cannot be
			// shown to find buffer space is a violation, not an unclaimed attempt
			if fc := prog.Contracts[o.Fn]; fc != nil && fc.NonBlocking {
				claimed = true
			}
		}
		if !claimed {
			if *only == "" {
				attempted = append(attempted, fmt.Sprintf("%s: %s %s", o.Name, o.Status, o.Detail))
			}
			continue
		}
		total++
		if o.Status == "discharged" {
			discharged++
			continue
		}
		replayed := false
		why := o.Status + ": " + o.Detail
		if o.Status == "failed" || o.Status == "unknown" {
			if ok, note := tryReplay(prog, ps, o, *repo, *verif); ok {
				replayed = true
				why += "; " + note
			} else if note != "" {
				why += "; " + note
			}
		}
		report(o, why, replayed)
	}
	// baseline obligations that no longer exist
	loopGone := map[string]bool{}
	if *only == "" {
		var bl []string
		for n := range baseline {
			bl = append(bl, n)
		}
		sort.Strings(bl)
		for _, n := range bl {
			if _, ok := byName[n]; !ok {
				if _, isKnown := known[n]; isKnown {
					continue
				}
				if !missingIsViolation(n) {
					continue
				}
				if i := strings.Index(n, ":"); i > 0 && (strings.Contains(n, ":inv_entry[") || strings.Contains(n, ":inv_step[")) {
					// a loop that was removed or folded into a call: its invariants were proof steps towards the function's
					// postconditions; as long as claimed postconditions of that function are still generated (and have to
					// discharge without the loop) nothing that carries the property has gone missing
					carried := false
					for bn := range baseline {
						if strings.HasPrefix(bn, n[:i]+":ensures[") {
							if _, ok := byName[bn]; ok {
								carried = true
							}
						}
					}
					if carried {
						loopGone[n[:i]] = true
						continue
					}
				}
				total++
				o := &Obligation{Name: n, Status: "missing", Detail: "contract target missing: the function, loop or call site this obligation is attached to no longer exists"}
				for _, r := range reports {
					if r.OutOfReach != "" && strings.HasPrefix(n, shortFuncName(r.Key)+":") {
						o.Detail = "contract target missing: the contract of " + shortFuncName(r.Key) + " no longer fits the code: " + r.OutOfReach
					}
				}
				report(o, o.Detail, false)
			}
		}
	}
	// bounded stand-ins: functions outside the executor's reach are exercised by a Go driver over a stated finite space.
	// They are never counted as proved; a failure is a violation with the driver's output as replay.
	var boundedReports []string
	for _, b := range ps.Bounded {
		name, desc := firstWord(b)
		drv, err := loadDriver(*verif, name)
		if err != nil {
			fmt.Fprintln(os.Stderr, "error: bounded driver:", err)
			return 2
		}
		body := strings.ReplaceAll(drv.Body, "{{seed}}", strconv.Itoa(seed))
		body = strings.ReplaceAll(body, "{{tier}}", *tier)
		out, _ := runOverlayTest(*repo, drv.Pkg, body, drv.Flags, "")
		m := regexp.MustCompile(`BOUNDED-OK cases=(\d+)`).FindStringSubmatch(out)
		if m != nil && !strings.Contains(out, "BOUNDED-VIOLATION") {
			boundedReports = append(boundedReports, fmt.Sprintf("bounded (not counted as proved): %s - %s: %s cases, all passed", name, desc, m[1]))
			continue
		}
		violations++
		path := filepath.Join(replayDir, *prop+"_bounded_"+sanitize(name)+".txt")
		os.WriteFile(path, []byte("bounded stand-in "+name+": "+desc+"\n\n--- driver output ---\n"+out+"\n"), 0o644)
		fmt.Printf("VIOLATION property=%s replay=%s bounded stand-in %s failed (%s)\n", *prop, path, name, desc)
		boundedReports = append(boundedReports, fmt.Sprintf("bounded: %s FAILED", name))
	}
	for _, m := range missing {
		fmt.Printf("VIOLATION property=%s replay=%s contract target missing: %s no-failing-input-found\n", *prop, filepath.Join(replayDir, *prop+"_missing.txt"), m)
		os.WriteFile(filepath.Join(replayDir, *prop+"_missing.txt"), []byte("contract target missing: "+m+"\n"), 0o644)
		violations++
	}
	for _, r := range reports {
		if r.OutOfReach != "" {
			// a function under contract that cannot be executed symbolically any more
			hasClaim := false
			for n := range baseline {
				if strings.HasPrefix(n, shortFuncName(r.Key)+":") {
					hasClaim = true
				}
			}
			if *verbose || hasClaim {
				fmt.Printf("note: %s out of reach: %s\n", shortFuncName(r.Key), r.OutOfReach)
			}
		}
	}
	for fnName := range loopGone {
		fmt.Printf("note: a loop under contract in %s no longer exists; its invariants are skipped, the function's postconditions still have to discharge\n", fnName)
	}
	for _, rn := range prog.Renames {
		fmt.Printf("note: renamed local followed by position: %s\n", rn)
	}
	wall := time.Since(start).Seconds()
	if *verbose {
		for _, o := range obs {
			fmt.Printf("  %-11s %-8s %5dms q=%d triv=%d %s %s\n", o.Status, o.Solver, o.Ms, len(o.Queries), o.Trivial, o.Name, o.Detail)
		}
	}
	fmt.Printf("property %s tier %s: %d/%d claimed obligations discharged, %d attempted-not-claimed, %d known findings, %d functions (%d swept), load %.1fs gen %.1fs total %.1fs\n",
		*prop, *tier, discharged, total, len(attempted), len(knownPrinted), len(reports), sweepFns, loadS, genS, wall)
	if *only == "" && !*noEvidence {
		writeEvidence(filepath.Join(*verif, "evidence", *prop+".json"), ps, *tier, seed, obs, reports, baseline, known, knownPrinted, attempted,
			discharged, total, violations, wall, float64(pf.TotalMs)/1000, prog, boundedReports)
	}
	if total == 0 && *only == "" && !*writeBaseline {
		fmt.Printf("VIOLATION property=%s replay=%s vacuity: no claimed obligations were generated no-failing-input-found\n", *prop, filepath.Join(replayDir, *prop+"_vacuity.txt"))
		os.WriteFile(filepath.Join(replayDir, *prop+"_vacuity.txt"), []byte("no claimed obligations generated\n"), 0o644)
		return 1
	}
	if violations > 0 {
		return 1
	}
	return 0
}

func writeReplayFile(path, prop string, o *Obligation, why string) {
	var b strings.Builder
	fmt.Fprintf(&b, "property: %s\nobligation: %s\nstatus: %s\nwhy: %s\nclause: %s\nwhere: %s\n", prop, o.Name, o.Status, why, o.Clause, o.Where)
	if o.FailIdx >= 0 && o.FailIdx < len(o.Traces) {
		fmt.Fprintf(&b, "path (source line: branch): %s\n", strings.Join(o.Traces[o.FailIdx], " -> "))
	}
	if o.Model != "" {
		fmt.Fprintf(&b, "\n--- solver output / model ---\n%s\n", o.Model)
	}
	if o.FailIdx >= 0 && o.FailIdx < len(o.Queries) {
		fmt.Fprintf(&b, "\n--- query (SMT-LIB) ---\n%s\n", o.Queries[o.FailIdx].Render(true))
	}
	os.WriteFile(path, []byte(b.String()), 0o644)
}

func writeEvidence(path string, ps *PropSpec, tier string, seed int, obs []*Obligation, reports []*FuncReport,
	baseline map[string]bool, known map[string]Finding, knownPrinted, attempted []string, discharged, total, violations int, wall, solverS float64, prog *Program, boundedReports []string) {
	type obRec struct {
		Name    string `json:"name"`
		Status  string `json:"status"`
		Solver  string `json:"solver"`
		Ms      int64  `json:"ms"`
		Queries int    `json:"path_queries"`
		Trivial int    `json:"trivially_true_instances"`
		Claimed bool   `json:"claimed"`
		Clause  string `json:"clause,omitempty"`
	}
	var recs []obRec
	bySolver := map[string]int{}
	for _, o := range obs {
		recs = append(recs, obRec{o.Name, o.Status, o.Solver, o.Ms, len(o.Queries), o.Trivial, baseline[claimKey(o)], o.Clause})
		if baseline[claimKey(o)] && o.Status == "discharged" {
			bySolver[o.Solver]++
		}
	}
	type fnRec struct {
		Name       string   `json:"name"`
		File       string   `json:"file,omitempty"`
		Line       int      `json:"line,omitempty"`
		SrcHash    string   `json:"source_sha256_prefix,omitempty"`
		Instrs     int      `json:"ssa_instructions,omitempty"`
		Paths      int      `json:"paths,omitempty"`
		Abstracted []string `json:"abstracted_calls,omitempty"`
		Trusted    bool     `json:"trusted,omitempty"`
		OutOfReach string   `json:"out_of_reach,omitempty"`
		Assumed    []string `json:"assumed_preconditions,omitempty"`
	}
	// every function is verified under its own preconditions: they are assumptions of that function's obligations and
	// are established where a pre[...] / spawn[...] / ...#created obligation of a caller discharges
	establishedSomewhere := func(fnShort, label string) bool {
		last := lastName(fnShort)
		for _, o := range obs {
			if (o.Kind == "pre" || o.Kind == "spawn") && o.Status == "discharged" && strings.Contains(o.Name, "["+last+"."+label) {
				return true
			}
		}
		return false
	}
	var fns []fnRec
	externs := map[string]bool{}
	for _, r := range reports {
		var assumed []string
		if fc := prog.Contracts[r.Key]; fc != nil && !r.Trusted {
			add := func(kind string, cs []*Clause) {
				for _, c := range cs {
					note := "not established at any call site checked in this run (entry-point or modelling assumption, or established under another property)"
					if establishedSomewhere(shortFuncName(r.Key), c.Label) {
						note = "established at the call sites checked in this run"
					}
					assumed = append(assumed, kind+" ["+c.Label+"]: "+note)
				}
			}
			add("requires", fc.Requires)
			add("captured_requires", fc.CapturedRequires)
			add("entry_assume", fc.EntryAssumes)
		}
		fns = append(fns, fnRec{shortFuncName(r.Key), strings.TrimPrefix(r.File, prog.RepoDir+"/"), r.Line, r.SrcHash, r.Instrs, r.Paths, r.Abstracted, r.Trusted, r.OutOfReach, assumed})
		for _, e := range r.Externs {
			externs[e] = true
		}
	}
	var trusted []string
	trusted = append(trusted, "go/packages + go/types + go/ssa (x/tools v0.50.0, NaiveForm) lower /repo faithfully; govc implements SSA semantics correctly (guarded by the must-fail selftest corpus)",
		"SMT solvers cvc5 1.0.3 / z3 5.1.0 / z3 4.8.12 are sound for unsat")
	var exts []string
	for e := range externs {
		exts = append(exts, e)
	}
	sort.Strings(exts)
	for _, e := range exts {
		trusted = append(trusted, "assumed contract: "+e)
	}
	trusted = append(trusted, ps.Trusted...)
	var samples []interface{}
	for _, o := range obs {
		if baseline[claimKey(o)] && len(o.Queries) > 0 && len(samples) < 3 {
			text := o.Queries[0].Render(false)
			if len(text) > 6000 {
				text = text[:6000] + "\n... (truncated)"
			}
			samples = append(samples, map[string]interface{}{"obligation": o.Name, "clause": o.Clause, "result": o.Status, "solver": o.Solver, "smt": text})
		}
	}
	if len(samples) == 0 {
		samples = append(samples, "no obligations")
	}
	level := ps.Level
	if level == "proof" && discharged != total {
		level = "other"
	}
	explanation := strings.Join(ps.Explain, " ")
	if explanation == "" {
		explanation = "contract-based deductive verification of the real code: obligations generated by symbolic execution of go/ssa of /repo against //@ contracts, discharged by SMT"
	}
	assumptions := append([]string{
		"integers are mathematical (no overflow obligations); partial correctness (termination not proved)",
		"slices are values (array,len): aliasing of backing arrays between different slice variables is not modelled (A-slice)",
		"pointer parameters and receivers are non-nil (A-nonnil); calls without a contract are replaced by havoc of their computed write set",
		"external (non-module) callees do not mutate module objects reachable only through interface-typed arguments (A-ext-readonly)",
	}, ps.Assume...)
	assumptions = append(assumptions, "every function under contract is verified assuming its own requires / captured_requires / entry_assume clauses (coverage.functions[].assumed_preconditions says for each whether a call site checked in this run establishes it); preconditions of entry points (RunBuild, BuildGraph, Walk, the query commands, lemma hypotheses) are modelling assumptions")
	assumptions = append(assumptions, "contracts name local variables of the functions they annotate; a local that was renamed since the baseline is followed by its position and type in the function's table of local cells (baseline/<id>.locals)")
	for _, rn := range prog.Renames {
		assumptions = append(assumptions, "renamed local followed by position: "+rn)
	}
	ev := map[string]interface{}{
		"property_id": ps.ID,
		"tier":        tier,
		"seed":        seed,
		"level":       level,
		"wall_s":      wall,
		"violations":  violations,
		"assumptions": assumptions,
		"coverage": map[string]interface{}{
			"obligations":             total,
			"discharged":              discharged,
			"checker_cmd":             "bin/govc check --prop " + ps.ID + " --tier " + tier,
			"trusted_base":            trusted,
			"explanation":             explanation,
			"samples":                 samples,
			"functions":               fns,
			"per_obligation":          recs,
			"discharged_by_solver":    bySolver,
			"solver_time_s":           solverS,
			"known_findings":          knownPrinted,
			"attempted_not_claimed":   attempted,
			"bounded":                 boundedReports,
			"functions_under_contract": len(fns),
		},
	}
	data, _ := json.MarshalIndent(ev, "", " ")
	os.MkdirAll(filepath.Dir(path), 0o755)
	os.WriteFile(path, data, 0o644)
}
