package main

import (
	"fmt"
	"golang.org/x/tools/go/packages"
	"golang.org/x/tools/go/ssa"
	"golang.org/x/tools/go/ssa/ssautil"
)

func main() {
	_ = packages.Load
	_ = ssa.NaiveForm
	_ = ssautil.Packages
	fmt.Println("ok")
}
