package main

// Hard-wired models of a few library functions that cannot be expressed as extern contracts
// (variadic formatting, in-place sorting with write-back, sync primitives).

import (
	"fmt"
	"go/types"
	"os"
	"strings"

	"golang.org/x/tools/go/ssa"
)

func (x *Exec) special(st *State, in ssa.Instruction, key string, f *ssa.Function, args []Value, resT types.Type) (Value, bool) {
	switch key {
	case "fmt.Sprintf":
		x.externsUsed[key+" (built-in model: constant formats with %s/%d/%v/%q of strings and ints)"] = true
		return x.sprintf(st, args), true
	case "fmt.Errorf":
		x.externsUsed[key+" (built-in model: result is a non-nil error)"] = true
		r := x.freshConst(st, "err", SIface)
		st.assume(Not(Eq(itag(r), IntLit(0))), "fmt.Errorf returns non-nil")
		return r, true
	case "errors.New":
		x.externsUsed[key+" (built-in model: result is a non-nil error)"] = true
		r := x.freshConst(st, "err", SIface)
		st.assume(Not(Eq(itag(r), IntLit(0))), "errors.New returns non-nil")
		return r, true
	case "sort.Strings", "slices.Sort", "sort.Sort":
		// in-place sort: the argument's origin cell receives sortseq(bag(s))
		if in == nil {
			return nil, false
		}
		ci, ok := in.(ssa.CallInstruction)
		if !ok {
			return nil, false
		}
		argV := ci.Common().Args[0]
		if key == "sort.Sort" {
			// only sort.Sort(sort.StringSlice(x)) for a []string x
			mi, ok := argV.(*ssa.MakeInterface)
			if !ok {
				return nil, false
			}
			ct, ok := mi.X.(*ssa.ChangeType)
			if !ok || ct.Type().String() != "sort.StringSlice" {
				return nil, false
			}
			argV = ct.X
			args = []Value{x.get(st, argV)}
		}
		if _, isStrSlice := argV.Type().Underlying().(*types.Slice); !isStrSlice {
			return nil, false
		}
		s := x.toTerm(st, args[0], argV.Type())
		if s.Sort != "Sl$String" {
			return nil, false
		}
		if _, ok := x.prog.U.Funs["sortedOf"]; !ok {
			return nil, false // prelude not loaded
		}
		x.externsUsed[key+" (assumed: leaves the slice equal to sortedOf(old slice), a function of its multiset)"] = true
		sorted := SymApp("sortedOf", s.Sort, s)
		o, ok := st.origin[argV]
		if !ok {
			x.unsupported("%s on a slice without a known origin", key)
		}
		x.store(st, o, x.define(st, "sorted", sorted))
		return nil, true
	case "(*sync.Mutex).Lock", "(*sync.RWMutex).Lock", "(*sync.RWMutex).RLock":
		p, _ := args[0].(*Ptr)
		x.lockOp(st, in, p, true)
		x.lockProtocol(st, in, true)
		return nil, true
	case "(*sync.Mutex).Unlock", "(*sync.RWMutex).Unlock", "(*sync.RWMutex).RUnlock":
		p, _ := args[0].(*Ptr)
		x.lockProtocol(st, in, false)
		x.lockOp(st, in, p, false)
		return nil, true
	case "(*sync.WaitGroup).Done", "(*sync.WaitGroup).Wait":
		x.externsUsed["sync.WaitGroup (built-in: no effect on modelled state)"] = true
		return nil, true
	case "(*sync.Once).Do":
		// the function runs at most once; model: it may or may not run here
		x.externsUsed["sync.Once.Do (built-in: callee runs at most once over the object's life)"] = true
		return x.onceDo(st, in, args), true
	case "time.Now", "time.Since":
		return x.freshResult(st, "time", resT), true
	}
	return nil, false
}

// sprintf models fmt.Sprintf for constant formats.
func (x *Exec) sprintf(st *State, args []Value) Value {
	ft, ok := args[0].(*Term)
	if !ok || ft.Kind != KStrLit {
		return x.freshConst(st, "sprintf", SString)
	}
	format := ft.Str
	var va *Term
	if len(args) > 1 {
		va, _ = args[1].(*Term)
	}
	nargs := int64(0)
	if va != nil {
		if l := x.sliceLen(va); l.Kind == KIntLit {
			nargs = l.Int
		} else {
			return x.freshConst(st, "sprintf", SString)
		}
	}
	var out *Term = StrLit("")
	argi := int64(0)
	i := 0
	lit := strings.Builder{}
	flush := func() {
		if lit.Len() > 0 {
			out = StrConcat(out, StrLit(lit.String()))
			lit.Reset()
		}
	}
	for i < len(format) {
		c := format[i]
		if c != '%' {
			lit.WriteByte(c)
			i++
			continue
		}
		if i+1 < len(format) && format[i+1] == '%' {
			lit.WriteByte('%')
			i += 2
			continue
		}
		// parse verb with optional flags/width
		j := i + 1
		for j < len(format) && strings.IndexByte("0123456789.+-# ", format[j]) >= 0 {
			j++
		}
		if j >= len(format) {
			return x.freshConst(st, "sprintf", SString)
		}
		verb := format[j]
		spec := format[i+1 : j]
		flush()
		if argi >= nargs {
			return x.freshConst(st, "sprintf", SString)
		}
		elem := selectS(x.sliceArr(va), IntLit(argi))
		argi++
		piece := x.formatArg(st, elem, verb, spec)
		out = StrConcat(out, piece)
		i = j + 1
	}
	flush()
	return x.define(st, "sprintf", out)
}

func (x *Exec) formatArg(st *State, elem *Term, verb byte, spec string) *Term {
	// known string payload?
	elem = resolve(elem)
	if elem.Kind == KApp && elem.Op == "mkIface" && elem.Args[0].Kind == KIntLit {
		ty := x.prog.tagTypes[elem.Args[0].Int]
		payload := resolve(elem.Args[1])
		if ty != nil {
			if b, ok := ty.Underlying().(*types.Basic); ok && spec == "" {
				if b.Info()&types.IsString != 0 && (verb == 's' || verb == 'v') {
					bx, _ := x.prog.boxFun(SString)
					if payload.Kind == KApp && payload.Op == bx {
						return payload.Args[0]
					}
				}
				if b.Info()&types.IsInteger != 0 && (verb == 'd' || verb == 'v') {
					bx, _ := x.prog.boxFun(SInt)
					if payload.Kind == KApp && payload.Op == bx {
						x.prog.U.AddFun(&FunDecl{Name: "itoa", Params: []BVar{{"i", SInt}}, Ret: SString})
						return SymApp("itoa", SString, payload.Args[0])
					}
				}
			}
		}
	}
	// anything else: an uninterpreted function of the argument and the verb
	name := "fmt$" + string(verb) + sanitize(spec)
	x.prog.U.AddFun(&FunDecl{Name: name, Params: []BVar{{"v", SIface}}, Ret: SString})
	return SymApp(name, SString, elem)
}

func (x *Exec) onceDo(st *State, in ssa.Instruction, args []Value) Value {
	fv, ok := args[1].(*FuncVal)
	if !ok || fv.Fn == nil {
		f := NewFrameSet()
		f.All = true
		x.applyFrame(st, f)
		return nil
	}
	// Model: the closure's effect is applied (it may also have been applied before; the obligations inside the
	// closure body are generated when the closure is verified on its own). Here its write set is havoced.
	if os.Getenv("GOVC_DEBUG_WS") != "" {
		ws := x.prog.writeSet(fv.Fn)
		fmt.Fprintf(os.Stderr, "once.Do writeset of %s: all=%v %v\n", fv.Fn.Name(), ws.All, ws.Names)
	}
	x.applyFrame(st, x.prog.writeSet(fv.Fn))
	for _, b := range fv.Bind {
		if p, ok := b.(*Ptr); ok && p.Cell != nil {
			x.havocPointee(st, p)
		}
	}
	return nil
}
