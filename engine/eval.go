package main

// Evaluation of contract expressions to terms.

import (
	"fmt"
	"go/constant"
	"go/types"
	"strings"

	"golang.org/x/tools/go/ssa"
)

type EvalCtx struct {
	x          *Exec
	prog       *Program
	st         *State // state for heap reads
	old        *State // state for old(...)
	vars       map[string]TV
	pkg        *types.Package
	loopHeader *ssa.BasicBlock
	atReturn   bool
	inOld      bool
	noLocals   bool
	localDefs  map[string]*FunDecl // contract-local definitions in scope (name -> instantiated symbol)
	shadow     map[string]bool // bound variables / results shadowing parameter names
	calleeFn   *ssa.Function   // ensures of a callee assumed at a call site: its local variables are existential witnesses
	witnesses  map[string]TV   // per call: one fresh constant per callee local mentioned in its ensures
	fvCells    map[string]*Ptr // contract of a closure applied at a call site: its captured variables, by name
	loopEntrySt *State         // loop invariants: the state in which the loop was entered (loopentry(e))
}

type evalError struct{ msg string }

func (c *EvalCtx) fail(f string, a ...interface{}) { panic(evalError{fmt.Sprintf(f, a...)}) }

func (x *Exec) ctxFor(st, old *State, extra map[string]TV) *EvalCtx {
	vars := map[string]TV{}
	for k, v := range x.params {
		vars[k] = v
	}
	for k, v := range extra {
		vars[k] = v
	}
	return &EvalCtx{x: x, prog: x.prog, st: st, old: old, vars: vars, pkg: x.pkg, localDefs: x.defs}
}

func (x *Exec) evalBool(ctx *EvalCtx, c *Clause) (t *Term) {
	defer func() {
		if r := recover(); r != nil {
			if e, ok := r.(evalError); ok {
				panic(unsupported{fmt.Sprintf("contract clause [%s] (%s:%d): %s", c.Label, c.File, c.Line, e.msg)})
			}
			panic(r)
		}
	}()
	tv := ctx.eval(c.E)
	t = tv.term()
	if t.Sort != SBool {
		ctx.fail("clause is not boolean")
	}
	return t
}

// instantiateDefs declares fresh symbols for the contract's local definitions and assumes their defining equations,
// with bodies evaluated in defState (the entry / pre-call state). Returns the map to put into EvalCtx.localDefs.
func (x *Exec) instantiateDefs(st *State, fc *FuncContract, mk func() *EvalCtx) map[string]*FunDecl {
	if fc == nil || len(fc.Defines) == 0 {
		return nil
	}
	out := map[string]*FunDecl{}
	for _, d := range fc.Defines {
		ctx := mk()
		ctx.localDefs = out
		fd := &FunDecl{Name: x.prog.freshName("def." + d.Name)}
		extra := map[string]TV{}
		var bs []BVar
		var argTerms []*Term
		for _, pv := range d.Params {
			s, ty, err := x.prog.sortFromText(pv.Type, ctx.pkg)
			if err != nil {
				x.unsupported("define %s: %v", d.Name, err)
			}
			bn := pv.Name + "!d"
			bs = append(bs, BVar{bn, s})
			fd.Params = append(fd.Params, BVar{pv.Name, s})
			bt := &Term{Kind: KApp, Op: bn, Sort: s}
			argTerms = append(argTerms, bt)
			extra[pv.Name] = ctx.typed(bt, ty)
		}
		rs, _, err := x.prog.sortFromText(d.Ret, ctx.pkg)
		if err != nil {
			x.unsupported("define %s: %v", d.Name, err)
		}
		fd.Ret = rs
		x.prog.U.AddFun(fd)
		var body *Term
		func() {
			defer func() {
				if r := recover(); r != nil {
					if e, ok := r.(evalError); ok {
						panic(unsupported{fmt.Sprintf("define %s (%s:%d): %s", d.Name, d.File, d.Line, e.msg)})
					}
					panic(r)
				}
			}()
			bc := ctx.withVars(extra)
			body = bc.termOf(bc.eval(d.Body))
		}()
		app := SymApp(fd.Name, rs, argTerms...)
		st.assume(Forall(bs, Eq(app, body), []*Term{app}), "definition of "+d.Name)
		out[d.Name] = fd
	}
	return out
}

func (c *EvalCtx) withVars(extra map[string]TV) *EvalCtx {
	n := *c
	n.shadow = map[string]bool{}
	for k := range c.shadow {
		n.shadow[k] = true
	}
	for k := range extra {
		n.shadow[k] = true
	}
	n.vars = map[string]TV{}
	for k, v := range c.vars {
		n.vars[k] = v
	}
	for k, v := range extra {
		n.vars[k] = v
	}
	return &n
}

func tvTerm(t *Term) TV { return TV{V: t, S: t.Sort} }

func (c *EvalCtx) typed(t *Term, ty types.Type) TV {
	if ty == nil {
		return tvTerm(t)
	}
	return TV{V: c.x.fromTerm(t, ty), T: ty, S: t.Sort}
}

func (c *EvalCtx) termOf(tv TV) *Term {
	if t, ok := tv.V.(*Term); ok {
		return t
	}
	return c.x.toTerm(c.state(), tv.V, tv.T)
}

func (c *EvalCtx) state() *State {
	if c.inOld && c.old != nil {
		return c.old
	}
	return c.st
}

func (c *EvalCtx) eval(e Expr) TV {
	switch v := e.(type) {
	case *EInt:
		return tvTerm(IntLit(v.V))
	case *EStr:
		return tvTerm(StrLit(v.V))
	case *EBool:
		return tvTerm(BoolLit(v.V))
	case *ENil:
		return TV{V: nil, S: "nil"}
	case *EIdent:
		return c.ident(v.Name)
	case *EOld:
		n := *c
		n.inOld = true
		return n.eval(v.X)
	case *EUnary:
		a := c.eval(v.X)
		switch v.Op {
		case "!":
			return tvTerm(Not(c.termOf(a)))
		case "-":
			return tvTerm(Sub(IntLit(0), c.termOf(a)))
		}
	case *EBinary:
		return c.binary(v)
	case *EField:
		return c.field(v)
	case *EIndex:
		return c.index(v)
	case *ESlice:
		return c.slice(v)
	case *ECall:
		return c.call(v)
	case *EQuant:
		extra := map[string]TV{}
		var bs []BVar
		for _, bv := range v.Vars {
			s, ty, err := c.prog.sortFromText(bv.Type, c.pkg)
			if err != nil {
				c.fail("%v", err)
			}
			name := bv.Name + "!b"
			bs = append(bs, BVar{name, s})
			t := &Term{Kind: KApp, Op: name, Sort: s}
			extra[bv.Name] = c.typed(t, ty)
		}
		qc := c.withVars(extra)
		body := qc.eval(v.Body)
		bt := c.termOf(body)
		var pats [][]*Term
		for _, pat := range v.Pats {
			var pt []*Term
			for _, pe := range pat {
				pt = append(pt, qc.termOf(qc.eval(pe)))
			}
			pats = append(pats, pt)
		}
		if v.Forall {
			return tvTerm(Forall(bs, bt, pats...))
		}
		return tvTerm(Exists(bs, bt, pats...))
	}
	c.fail("cannot evaluate %s", e.exprString())
	return TV{}
}

func (c *EvalCtx) ident(name string) TV {
	// parameters of the function under verification are mutable cells: outside old(), their current value counts
	// ... except in postconditions (and the ghost assignments made at return), where a parameter name denotes the
	// argument the caller passed, as in every contract language: a body that reassigns the parameter
	// (ctx, cancel := context.WithTimeout(ctx, d)) must not change what the postcondition says about the argument
	if c.x != nil && !c.noLocals && !c.inOld && !c.atReturn && c.x.fn != nil {
		if _, isParam := c.x.params[name]; isParam {
			// the mutable cell of a parameter carries the parameter's own name; a contract name that differs from it
			// (the parameter was renamed) must not be looked up among locals and captured variables of that name
			actual := false
			for _, p := range c.x.fn.Params {
				if p.Name() == name {
					actual = true
				}
			}
			if _, shadow := c.shadow[name]; !shadow && actual {
				if tv, ok := c.localVarSafe(name); ok && tv.V != nil {
					return tv
				}
			}
		}
	}
	if p, ok := c.fvCells[name]; ok {
		if _, shadow := c.shadow[name]; !shadow {
			v, t := c.x.load(c.state(), p)
			return TV{V: v, T: t, S: c.prog.sortOf(t)}
		}
	}
	if tv, ok := c.vars[name]; ok {
		if c.inOld {
			// parameters: entry value
			if c.x != nil && !c.noLocals {
				if p, ok := c.x.params[name]; ok {
					return p
				}
			}
		}
		return tv
	}
	// local source variable of the function being verified
	if c.x != nil && !c.noLocals {
		if tv, ok := c.localVar(name); ok {
			return tv
		}
	}
	// ghost variable
	if c.prog.Spec != nil {
		for _, g := range c.prog.Spec.GhostVars {
			if g.Name == name {
				s, _, err := c.prog.sortFromText(g.Type, c.pkg)
				if err != nil {
					c.fail("%v", err)
				}
				st := c.state()
				if t, ok := st.heap["GV$"+name]; ok {
					return tvTerm(t)
				}
				c.prog.U.AddFun(&FunDecl{Name: "GV$" + name + "@pre", Ret: s})
				heapSorts["GV$"+name] = s
				return tvTerm(Const("GV$"+name+"@pre", s))
			}
		}
	}
	// package-level variable
	if c.pkg != nil && c.x != nil {
		if g := c.findGlobal(c.pkg.Path(), name); g != nil {
			v, t := c.x.load(c.state(), &Ptr{Global: g, Elem: g.Type().(*types.Pointer).Elem()})
			return TV{V: v, T: t, S: c.prog.sortOf(t)}
		}
	}
	if c.pkg != nil {
		if cn, ok := c.pkg.Scope().Lookup(name).(*types.Const); ok {
			return c.constTV(cn)
		}
	}
	// nullary spec function / constant
	if f, ok := c.prog.U.Funs[name]; ok && len(f.Params) == 0 {
		return tvTerm(SymApp(name, f.Ret))
	}
	// a local variable of the callee in one of its postconditions: the caller learns that some value exists for it
	if c.calleeFn != nil && c.witnesses != nil {
		if tv, ok := c.witnesses[name]; ok {
			return tv
		}
		wname := name
		wantK := 1
		if i := strings.Index(wname, "#"); i >= 0 {
			fmt.Sscanf(wname[i+1:], "%d", &wantK)
			wname = wname[:i]
		}
		if r, ok := c.prog.renamedLocal(c.calleeFn, wname); ok {
			wname = r
		}
		seenK := 0
		for _, b := range c.calleeFn.Blocks {
			for _, in := range b.Instrs {
				if a, ok := in.(*ssa.Alloc); ok && a.Comment == wname {
					seenK++
					if seenK != wantK {
						continue
					}
					t := a.Type().(*types.Pointer).Elem()
					v := c.x.freshValue(c.st, "witness."+name, t)
					tv := TV{V: v, T: t, S: c.prog.sortOf(t)}
					if tt, isTerm := v.(*Term); isTerm {
						c.x.assumeTypeInv(c.st, tt, t)
					}
					c.witnesses[name] = tv
					return tv
				}
			}
		}
	}
	c.fail("unknown identifier %q", name)
	return TV{}
}

func (c *EvalCtx) constTV(cn *types.Const) TV {
	switch cn.Val().Kind() {
	case constant.Bool:
		return c.typed(BoolLit(constant.BoolVal(cn.Val())), cn.Type())
	case constant.String:
		return c.typed(StrLit(constant.StringVal(cn.Val())), cn.Type())
	case constant.Int:
		if i, ok := constant.Int64Val(cn.Val()); ok {
			return c.typed(IntLit(i), cn.Type())
		}
	}
	c.fail("unsupported constant %s", cn.Name())
	return TV{}
}

func (c *EvalCtx) findGlobal(pkgPath, name string) *ssa.Global {
	sp := c.prog.SSAPkgs[pkgPath]
	if sp == nil {
		for _, p := range c.prog.SSA.AllPackages() {
			if p.Pkg.Path() == pkgPath {
				sp = p
				break
			}
		}
	}
	if sp == nil {
		return nil
	}
	if g, ok := sp.Members[name].(*ssa.Global); ok {
		return g
	}
	return nil
}

// localVar finds the current value of a source-level local variable by name (optionally name#k for the k-th declaration).
func (c *EvalCtx) localVar(name string) (TV, bool) {
	x := c.x
	if name == "rangeindex" && c.loopHeader != nil && len(c.loopHeader.Instrs) > 0 {
		// the hidden index of the slice-range loop whose invariant is being evaluated
		if ld, ok := c.loopHeader.Instrs[0].(*ssa.UnOp); ok {
			if al, ok := ld.X.(*ssa.Alloc); ok && al.Comment == "rangeindex" {
				st := c.state()
				if cell := st.allocOf[al]; cell != nil {
					return TV{V: st.cells[cell], T: types.Typ[types.Int], S: SInt}, true
				}
			}
		}
	}
	want := 1
	base := name
	if i := strings.Index(name, "#"); i >= 0 {
		fmt.Sscanf(name[i+1:], "%d", &want)
		base = name[:i]
	}
	if r, ok := c.prog.renamedLocal(x.fn, base); ok {
		base = r
	}
	n := 0
	var found *ssa.Alloc
	for _, b := range x.fn.Blocks {
		for _, in := range b.Instrs {
			if a, ok := in.(*ssa.Alloc); ok && a.Comment == base {
				n++
				if n == want {
					found = a
				}
			}
		}
	}
	if found == nil {
		// free variable (captured cell)
		for _, fv := range x.fn.FreeVars {
			if fv.Name() == base {
				st := c.state()
				p, ok := st.regs[fv].(*Ptr)
				if !ok {
					return TV{}, false
				}
				v, t := x.load(st, p)
				return TV{V: v, T: t, S: c.prog.sortOf(t)}, true
			}
		}
		return TV{}, false
	}
	// a local variable has no "old" value of its own: inside old(...) it denotes its current value (only the heap and
	// the parameters are taken from the entry state)
	st := c.st
	elem := found.Type().(*types.Pointer).Elem()
	if !found.Heap {
		cell := st.allocOf[found]
		if cell == nil {
			return c.undefinedLocal(name, elem), true
		}
		return TV{V: st.cells[cell], T: elem, S: c.prog.sortOf(elem)}, true
	}
	p, ok := st.regs[found].(*Ptr)
	if !ok {
		return c.undefinedLocal(name, elem), true
	}
	if false {
		c.fail("local variable %q is not live here", name)
	}
	v, t := x.load(st, p)
	return TV{V: v, T: t, S: c.prog.sortOf(t)}, true
}

func (c *EvalCtx) binary(v *EBinary) TV {
	switch v.Op {
	case "&&":
		return tvTerm(And(c.termOf(c.eval(v.X)), c.termOf(c.eval(v.Y))))
	case "||":
		return tvTerm(Or(c.termOf(c.eval(v.X)), c.termOf(c.eval(v.Y))))
	case "==>":
		return tvTerm(Implies(c.termOf(c.eval(v.X)), c.termOf(c.eval(v.Y))))
	case "<==>":
		return tvTerm(Eq(c.termOf(c.eval(v.X)), c.termOf(c.eval(v.Y))))
	}
	a, b := c.eval(v.X), c.eval(v.Y)
	switch v.Op {
	case "==", "!=":
		var eq *Term
		switch {
		case a.S == "nil" && b.S == "nil":
			eq = True
		case b.S == "nil":
			eq = c.isNil(a)
		case a.S == "nil":
			eq = c.isNil(b)
		default:
			at, bt := c.termOf(a), c.termOf(b)
			if at.Sort != bt.Sort {
				c.fail("comparison of different sorts %s and %s in %s", at.Sort, bt.Sort, v.exprString())
			}
			eq = Eq(at, bt)
		}
		if v.Op == "!=" {
			return tvTerm(Not(eq))
		}
		return tvTerm(eq)
	}
	at, bt := c.termOf(a), c.termOf(b)
	if at.Sort == SString && bt.Sort == SString {
		switch v.Op {
		case "+":
			return tvTerm(StrConcat(at, bt))
		case "<":
			return tvTerm(App("str.<", SBool, at, bt))
		case "<=":
			return tvTerm(App("str.<=", SBool, at, bt))
		case ">":
			return tvTerm(App("str.<", SBool, bt, at))
		case ">=":
			return tvTerm(App("str.<=", SBool, bt, at))
		}
	}
	if at.Sort != SInt || bt.Sort != SInt {
		c.fail("arithmetic on non-integers in %s (%s, %s)", v.exprString(), at.Sort, bt.Sort)
	}
	switch v.Op {
	case "+":
		return tvTerm(Add(at, bt))
	case "-":
		return tvTerm(Sub(at, bt))
	case "*":
		return tvTerm(App("*", SInt, at, bt))
	case "/":
		return tvTerm(App("div", SInt, at, bt))
	case "%":
		return tvTerm(App("mod", SInt, at, bt))
	case "<":
		return tvTerm(Lt(at, bt))
	case "<=":
		return tvTerm(Le(at, bt))
	case ">":
		return tvTerm(Gt(at, bt))
	case ">=":
		return tvTerm(Ge(at, bt))
	}
	c.fail("unknown operator %s", v.Op)
	return TV{}
}

func (c *EvalCtx) isNil(a TV) *Term {
	t := c.termOf(a)
	switch {
	case t.Sort == SIface:
		return Eq(itag(t), IntLit(0))
	case t.Sort == SInt:
		return Eq(t, IntLit(0))
	case strings.HasPrefix(string(t.Sort), "Sl$"):
		return Eq(c.x.sliceLen(t), IntLit(0))
	}
	c.fail("nil comparison on sort %s", t.Sort)
	return nil
}

// ghost fields
func (c *EvalCtx) ghostField(structT types.Type, name string) (Sort, bool) {
	if c.prog.Spec == nil {
		return "", false
	}
	for _, g := range c.prog.Spec.Ghosts {
		if g.Name != name {
			continue
		}
		gt, err := c.prog.lookupType(g.TypeText, c.pkg)
		if err != nil {
			continue
		}
		if types.Identical(gt, structT) {
			s, _, err := c.prog.sortFromText(g.SortText, c.pkg)
			if err != nil {
				c.fail("%v", err)
			}
			return s, true
		}
	}
	return "", false
}

func ghostHeapName(t types.Type, field string) string { return "GH$" + typeName(t) + "$" + field }

func (c *EvalCtx) field(v *EField) TV {
	// package-qualified global: pkg.Name
	if id, ok := v.X.(*EIdent); ok {
		if _, isVar := c.vars[id.Name]; !isVar {
			if pk, ok := c.prog.PkgByName[id.Name]; ok && c.x != nil {
				if _, isLocal := c.localVarSafe(id.Name); !isLocal {
					if g := c.findGlobal(pk.PkgPath, v.Name); g != nil {
						val, t := c.x.load(c.state(), &Ptr{Global: g, Elem: g.Type().(*types.Pointer).Elem()})
						return TV{V: val, T: t, S: c.prog.sortOf(t)}
					}
					if pk.Types != nil {
						if cn, ok := pk.Types.Scope().Lookup(v.Name).(*types.Const); ok {
							return c.constTV(cn)
						}
					}
					c.fail("unknown global %s.%s", id.Name, v.Name)
				}
			}
		}
	}
	base := c.eval(v.X)
	if base.T == nil {
		// spec-level datatype value: selector by name
		t := c.termOf(base)
		if d, ok := c.prog.U.Datatypes[t.Sort]; ok {
			for i, f := range d.Fields {
				if f.Name == string(t.Sort)+"$"+v.Name {
					return tvTerm(c.x.selField(t, i))
				}
			}
		}
		c.fail("field %s on untyped value %s", v.Name, v.X.exprString())
	}
	bt := base.T
	isPtr := false
	if p, ok := bt.Underlying().(*types.Pointer); ok {
		bt = p.Elem()
		isPtr = true
	}
	st, ok := bt.Underlying().(*types.Struct)
	if !ok {
		c.fail("field %s on non-struct %s", v.Name, base.T)
	}
	// ghost field?
	if gs, ok := c.ghostField(bt, v.Name); ok {
		if !isPtr {
			c.fail("ghost field %s needs a pointer receiver", v.Name)
		}
		ref := c.termOf(base)
		arr := c.x.heapGet(c.state(), ghostHeapName(bt, v.Name), gs)
		return tvTerm(selectS(arr, ref))
	}
	for i := 0; i < st.NumFields(); i++ {
		if st.Field(i).Name() != v.Name {
			continue
		}
		ft := st.Field(i).Type()
		if isPtr {
			p, ok := base.V.(*Ptr)
			if !ok {
				p = &Ptr{Ref: c.termOf(base), Elem: bt}
			}
			val, _ := c.x.load(c.state(), p.extend(PathElem{Field: i, Container: bt}))
			return TV{V: val, T: ft, S: c.prog.sortOf(ft)}
		}
		t := c.termOf(base)
		if _, isDT := c.prog.U.Datatypes[t.Sort]; !isDT {
			c.fail("field %s of opaque struct %s", v.Name, bt)
		}
		return c.typed(c.x.selField(t, i), ft)
	}
	c.fail("no field %s in %s", v.Name, bt)
	return TV{}
}

func (c *EvalCtx) localVarSafe(name string) (tv TV, ok bool) {
	defer func() {
		if r := recover(); r != nil {
			ok = false
		}
	}()
	if c.x == nil || c.noLocals {
		return TV{}, false
	}
	return c.localVar(name)
}

func (c *EvalCtx) index(v *EIndex) TV {
	base := c.eval(v.X)
	idx := c.eval(v.I)
	bt := c.termOf(base)
	it := c.termOf(idx)
	if base.T != nil {
		switch u := base.T.Underlying().(type) {
		case *types.Slice:
			return c.typed(selectS(c.x.sliceArr(bt), it), u.Elem())
		case *types.Map:
			val, _ := c.x.mapLookup(c.state(), u, bt, it)
			return c.typed(val, u.Elem())
		case *types.Array:
			return c.typed(selectS(bt, it), u.Elem())
		}
	}
	if bt.Sort == SString {
		return tvTerm(App("str.to_code", SInt, App("str.at", SString, bt, it)))
	}
	if _, _, ok := arrayParts(bt.Sort); ok {
		return tvTerm(selectS(bt, it))
	}
	if strings.HasPrefix(string(bt.Sort), "Sl$") {
		return tvTerm(selectS(c.x.sliceArr(bt), it))
	}
	c.fail("cannot index %s", v.X.exprString())
	return TV{}
}

func (c *EvalCtx) slice(v *ESlice) TV {
	base := c.eval(v.X)
	bt := c.termOf(base)
	var lo, hi *Term
	if v.Lo != nil {
		lo = c.termOf(c.eval(v.Lo))
	} else {
		lo = IntLit(0)
	}
	if bt.Sort == SString {
		if v.Hi != nil {
			hi = c.termOf(c.eval(v.Hi))
		} else {
			hi = StrLen(bt)
		}
		return tvTerm(App("str.substr", SString, bt, lo, Sub(hi, lo)))
	}
	if strings.HasPrefix(string(bt.Sort), "Sl$") {
		if v.Hi != nil {
			hi = c.termOf(c.eval(v.Hi))
		} else {
			hi = c.x.sliceLen(bt)
		}
		arr := c.x.sliceArr(bt)
		if !(lo.Kind == KIntLit && lo.Int == 0) {
			arr = c.x.shiftArr(arr, lo)
		}
		return TV{V: c.x.mkSlice(bt.Sort, arr, Sub(hi, lo)), T: base.T, S: bt.Sort}
	}
	c.fail("cannot slice %s", v.X.exprString())
	return TV{}
}

func (c *EvalCtx) call(v *ECall) TV {
	args := func() []*Term {
		var out []*Term
		for _, a := range v.Args {
			out = append(out, c.termOf(c.eval(a)))
		}
		return out
	}
	need := func(n int) {
		if len(v.Args) != n {
			c.fail("%s expects %d arguments", v.Fun, n)
		}
	}
	switch v.Fun {
	case "len":
		need(1)
		a := c.eval(v.Args[0])
		t := c.termOf(a)
		if t.Sort == SString {
			return tvTerm(StrLen(t))
		}
		if strings.HasPrefix(string(t.Sort), "Sl$") {
			return tvTerm(c.x.sliceLen(t))
		}
		if a.T != nil {
			if mt, ok := a.T.Underlying().(*types.Map); ok {
				return tvTerm(c.x.mapLen(c.state(), mt, t))
			}
		}
		c.fail("len of %s", t.Sort)
	case "hasPrefix":
		need(2)
		a := args()
		return tvTerm(App("str.prefixof", SBool, a[1], a[0]))
	case "hasSuffix":
		need(2)
		a := args()
		return tvTerm(App("str.suffixof", SBool, a[1], a[0]))
	case "contains":
		need(2)
		a := args()
		return tvTerm(App("str.contains", SBool, a[0], a[1]))
	case "idx":
		a := args()
		if len(a) == 2 {
			return tvTerm(App("str.indexof", SInt, a[0], a[1], IntLit(0)))
		}
		need(3)
		return tvTerm(App("str.indexof", SInt, a[0], a[1], a[2]))
	case "sub":
		need(3)
		a := args()
		return tvTerm(App("str.substr", SString, a[0], a[1], Sub(a[2], a[1])))
	case "code":
		need(2)
		a := args()
		return tvTerm(App("str.to_code", SInt, App("str.at", SString, a[0], a[1])))
	case "chr":
		need(1)
		a := args()
		return tvTerm(App("str.from_code", SString, a[0]))
	case "ite":
		need(3)
		cond := c.termOf(c.eval(v.Args[0]))
		a, b := c.eval(v.Args[1]), c.eval(v.Args[2])
		r := Ite(cond, c.termOf(a), c.termOf(b))
		return TV{V: c.x.fromTermMaybe(r, a.T), T: a.T, S: r.Sort}
	case "has":
		need(2)
		m := c.eval(v.Args[0])
		k := c.termOf(c.eval(v.Args[1]))
		mt := c.termOf(m)
		if m.T != nil {
			if mm, ok := m.T.Underlying().(*types.Map); ok {
				return tvTerm(Select(c.x.mapHas(c.state(), mm, mt), k))
			}
		}
		if _, vs, ok := arrayParts(mt.Sort); ok && vs == SBool {
			return tvTerm(Select(mt, k))
		}
		c.fail("has() on %s", mt.Sort)
	case "isnil":
		need(1)
		return tvTerm(c.isNil(c.eval(v.Args[0])))
	case "typeIs":
		need(2)
		a := c.termOf(c.eval(v.Args[0]))
		ts, ok := v.Args[1].(*EStr)
		if !ok {
			c.fail("typeIs needs a type name string")
		}
		ty, err := c.prog.lookupType(ts.V, c.pkg)
		if err != nil {
			c.fail("%v", err)
		}
		return tvTerm(Eq(itag(a), IntLit(c.prog.tagOf(ty))))
	case "asPtr":
		// asPtr(iface, "*pkg.T") : the payload as a typed pointer
		need(2)
		a := c.termOf(c.eval(v.Args[0]))
		ts := v.Args[1].(*EStr)
		ty, err := c.prog.lookupType(ts.V, c.pkg)
		if err != nil {
			c.fail("%v", err)
		}
		return c.typed(ival(a), ty)
	case "iface":
		// iface(ptr, "*pkg.T"): interface value wrapping a typed pointer
		need(2)
		a := c.termOf(c.eval(v.Args[0]))
		ts := v.Args[1].(*EStr)
		ty, err := c.prog.lookupType(ts.V, c.pkg)
		if err != nil {
			c.fail("%v", err)
		}
		return tvTerm(App("mkIface", SIface, IntLit(c.prog.tagOf(ty)), a))
	case "held":
		need(1)
		// lock held? evaluated statically against the lockset
		key := c.lockKey(v.Args[0])
		return tvTerm(BoolLit(c.state().held[key]))
	case "loopentry":
		// loopentry(e): the value of e when the loop whose invariant this is was entered (relational loop invariants such
		// as "the list only grows")
		need(1)
		if c.loopEntrySt == nil {
			c.fail("loopentry() outside a loop invariant")
		}
		n := *c
		n.st = c.loopEntrySt
		n.inOld = false
		return n.eval(v.Args[0])
	case "chanclosed":
		// chanclosed(ch): the channel has been closed (ghost state behind the close-once obligation)
		need(1)
		ch := c.termOf(c.eval(v.Args[0]))
		return tvTerm(c.x.chanGet(c.state(), "C$closed", ch, SBool))
	case "received":
		// received(ch): a value was received from channel ch on this path (ghost, path-sensitive)
		need(1)
		ch := c.termOf(c.eval(v.Args[0]))
		if c.state().recvd[ch.String()] {
			return tvTerm(True)
		}
		var alts []*Term
		for _, r := range c.state().recvdT {
			if r.Sort == ch.Sort {
				alts = append(alts, Eq(r, ch))
			}
		}
		if len(alts) == 0 {
			return tvTerm(False)
		}
		return tvTerm(Or(alts...))
	case "seen":
		// seen(k): the visited-set of the map range loop at the current loop header
		it := c.rangeIter()
		if it == nil {
			c.fail("seen() outside a map range loop")
		}
		set := c.state().ranges[it.ID]
		if len(v.Args) == 0 {
			return tvTerm(set)
		}
		return tvTerm(Select(set, c.termOf(c.eval(v.Args[0]))))
	case "ranged":
		// the slice ranged over by the rangeindex loop at the current loop header
		if c.loopHeader == nil || len(c.loopHeader.Instrs) < 4 {
			c.fail("ranged() outside a slice range loop")
		}
		cmp, ok := c.loopHeader.Instrs[3].(*ssa.BinOp)
		if !ok {
			c.fail("ranged() outside a slice range loop")
		}
		call, ok := cmp.Y.(*ssa.Call)
		if !ok || len(call.Call.Args) != 1 {
			c.fail("ranged(): loop bound is not len(slice)")
		}
		sv := call.Call.Args[0]
		val, ok := c.state().regs[sv]
		if !ok {
			c.fail("ranged(): slice value not available")
		}
		return TV{V: val, T: sv.Type(), S: c.prog.sortOf(sv.Type())}
	case "pos":
		it := c.rangeIter()
		if it == nil {
			c.fail("pos() outside a string range loop")
		}
		return tvTerm(c.state().ranges[it.ID])
	case "store":
		need(3)
		a := args()
		return tvTerm(Store(a[0], a[1], a[2]))
	case "select":
		need(2)
		a := args()
		return tvTerm(Select(a[0], a[1]))
	case "mkslice":
		// mkslice(arr, len) for []string
		need(2)
		a := args()
		_, es, _ := arrayParts(a[0].Sort)
		s := Sort("Sl$" + sortMangle(es))
		return tvTerm(c.x.mkSlice(s, a[0], a[1]))
	case "arr":
		need(1)
		a := args()
		return tvTerm(c.x.sliceArr(a[0]))
	case "appendOne":
		// appendOne(s, x): the slice append(s, x) as produced by the executor
		need(2)
		a := args()
		if !strings.HasPrefix(string(a[0].Sort), "Sl$") {
			c.fail("appendOne needs a slice")
		}
		ln := c.x.sliceLen(a[0])
		return tvTerm(c.x.mkSlice(a[0].Sort, Store(c.x.sliceArr(a[0]), ln, a[1]), Add(ln, IntLit(1))))
	case "appendAll":
		// appendAll(s, t): the slice append(s, t...) as produced by the executor
		need(2)
		a := args()
		if a[0].Sort != a[1].Sort || !strings.HasPrefix(string(a[0].Sort), "Sl$") {
			c.fail("appendAll needs two slices of the same type")
		}
		name := "append$" + sortMangle(a[0].Sort)
		if _, ok := c.prog.U.Funs[name]; !ok {
			d := c.prog.U.Datatypes[a[0].Sort]
			c.prog.declAppend(name, a[0].Sort, d.Fields[0].Sort)
		}
		return tvTerm(SymApp(name, a[0].Sort, a...))
	case "keys":
		// keys(m): the set of present keys of a Go map
		need(1)
		m := c.eval(v.Args[0])
		mm, ok := m.T.Underlying().(*types.Map)
		if !ok {
			c.fail("keys() of non-map")
		}
		return tvTerm(c.x.mapHas(c.state(), mm, c.termOf(m)))
	case "vals":
		need(1)
		m := c.eval(v.Args[0])
		mm, ok := m.T.Underlying().(*types.Map)
		if !ok {
			c.fail("vals() of non-map")
		}
		return tvTerm(c.x.mapVal(c.state(), mm, c.termOf(m)))
	case "heapOf":
		// heapOf("pkg.Type", "Field"): the heap array (object reference -> field value) of a struct field, in the current
		// state (or the entry state inside old())
		need(2)
		ts, ok1 := v.Args[0].(*EStr)
		fs, ok2 := v.Args[1].(*EStr)
		if !ok1 || !ok2 {
			c.fail("heapOf needs two string literals")
		}
		ty, err := c.prog.lookupType(ts.V, c.pkg)
		if err != nil {
			c.fail("%v", err)
		}
		stt, ok := ty.Underlying().(*types.Struct)
		if !ok {
			c.fail("heapOf: %s is not a struct", ts.V)
		}
		ss := c.prog.sortOf(ty)
		for i := 0; i < stt.NumFields(); i++ {
			if stt.Field(i).Name() == fs.V {
				return tvTerm(c.x.heapGet(c.state(), heapFieldName(ss, fs.V), c.prog.sortOf(stt.Field(i).Type())))
			}
		}
		if gs, ok := c.ghostField(ty, fs.V); ok {
			return tvTerm(c.x.heapGet(c.state(), ghostHeapName(ty, fs.V), gs))
		}
		c.fail("heapOf: no field %s in %s", fs.V, ts.V)
	case "asString", "asBool", "asInt":
		// payload of an interface value holding a string / bool / int
		need(1)
		a := c.termOf(c.eval(v.Args[0]))
		var ty types.Type = types.Typ[types.String]
		if v.Fun == "asBool" {
			ty = types.Typ[types.Bool]
		} else if v.Fun == "asInt" {
			ty = types.Typ[types.Int]
		}
		val := c.x.unboxAs(a, ty)
		return tvTerm(c.x.toTerm(c.state(), val, ty))
	case "tag":
		need(1)
		return tvTerm(itag(c.termOf(c.eval(v.Args[0]))))
	case "ref":
		need(1)
		t := c.termOf(c.eval(v.Args[0]))
		if t.Sort == SIface {
			return tvTerm(ival(t))
		}
		return tvTerm(t)
	case "mkstruct":
		// mkstruct("pkg.T", f1, f2, ...): the value of struct type pkg.T with the given field values, in declaration order
		if len(v.Args) < 1 {
			c.fail("mkstruct needs a type")
		}
		ts, ok := v.Args[0].(*EStr)
		if !ok {
			c.fail("mkstruct: first argument must be a type name string")
		}
		ty, err := c.prog.lookupType(ts.V, c.pkg)
		if err != nil {
			c.fail("%v", err)
		}
		ss := c.prog.sortOf(ty)
		dt, isDT := c.prog.U.Datatypes[ss]
		if !isDT || len(dt.Fields) != len(v.Args)-1 {
			c.fail("mkstruct(%s): expects %d field values", ts.V, len(dt.Fields))
		}
		var fs []*Term
		for i, a := range v.Args[1:] {
			t := c.termOf(c.eval(a))
			if t.Sort != dt.Fields[i].Sort {
				c.fail("mkstruct(%s): field %d has sort %s, want %s", ts.V, i+1, t.Sort, dt.Fields[i].Sort)
			}
			fs = append(fs, t)
		}
		return c.typed(App(dt.Ctor, ss, fs...), ty)
	case "allocated":
		// allocated(p): p is nil or an object that exists in the state the clause is evaluated in (for old(): at entry)
		need(1)
		t := c.termOf(c.eval(v.Args[0]))
		if t.Sort == SIface {
			t = ival(t)
		}
		return tvTerm(Or(Eq(t, IntLit(0)), Select(c.state().alloc, t)))
	case "deref":
		// deref(p): the struct value p points to, in the state the expression is evaluated in
		need(1)
		base := c.eval(v.Args[0])
		if base.T == nil {
			c.fail("deref of an untyped value")
		}
		pt, ok := base.T.Underlying().(*types.Pointer)
		if !ok {
			c.fail("deref of non-pointer %s", base.T)
		}
		p, ok := base.V.(*Ptr)
		if !ok {
			p = &Ptr{Ref: c.termOf(base), Elem: pt.Elem()}
		}
		val, t := c.x.load(c.state(), p)
		return TV{V: val, T: t, S: c.prog.sortOf(t)}
	case "emptyset":
		// emptyset("T"): the empty set of T
		need(1)
		ts := v.Args[0].(*EStr)
		ks, _, err := c.prog.sortFromText(ts.V, c.pkg)
		if err != nil {
			c.fail("%v", err)
		}
		return tvTerm(c.prog.zeroOfSort(ArraySort(ks, SBool)))
	}
	// contract-local definition
	if f, ok := c.localDefs[v.Fun]; ok {
		a := args()
		if len(a) != len(f.Params) {
			c.fail("%s expects %d arguments", v.Fun, len(f.Params))
		}
		for i := range a {
			if a[i].Sort != f.Params[i].Sort {
				c.fail("%s: argument %d has sort %s, want %s", v.Fun, i+1, a[i].Sort, f.Params[i].Sort)
			}
		}
		return tvTerm(SymApp(f.Name, f.Ret, a...))
	}
	// macro
	if m, ok := c.prog.Spec.Macros[v.Fun]; ok {
		if len(v.Args) != len(m.Params) {
			c.fail("macro %s expects %d arguments", v.Fun, len(m.Params))
		}
		extra := map[string]TV{}
		for i, a := range v.Args {
			extra[m.Params[i]] = c.eval(a)
		}
		return c.withVars(extra).eval(m.Body)
	}
	// spec function
	if f, ok := c.prog.U.Funs[v.Fun]; ok {
		a := args()
		if len(a) != len(f.Params) {
			c.fail("%s expects %d arguments, got %d", v.Fun, len(f.Params), len(a))
		}
		for i := range a {
			if a[i].Sort != f.Params[i].Sort {
				c.fail("%s: argument %d has sort %s, want %s", v.Fun, i+1, a[i].Sort, f.Params[i].Sort)
			}
		}
		if rt, ok := c.prog.specFnRetType[v.Fun]; ok {
			// only pointer results keep their Go type (so that fields can be selected); other results stay spec-level
			switch rt.Underlying().(type) {
			case *types.Pointer, *types.Slice:
				return c.typed(SymApp(v.Fun, f.Ret, a...), rt)
			}
		}
		return tvTerm(SymApp(v.Fun, f.Ret, a...))
	}
	c.fail("unknown function %q", v.Fun)
	return TV{}
}

func (x *Exec) fromTermMaybe(t *Term, ty types.Type) Value {
	if ty == nil {
		return t
	}
	return x.fromTerm(t, ty)
}

func (c *EvalCtx) rangeIter() *RangeIter {
	if c.loopHeader == nil {
		return nil
	}
	for _, in := range c.loopHeader.Instrs {
		if n, ok := in.(*ssa.Next); ok {
			if it, ok := c.state().regs[n.Iter].(*RangeIter); ok {
				return it
			}
		}
	}
	return nil
}

func (c *EvalCtx) lockKey(e Expr) string {
	// e is of the form w.doneMutex
	f, ok := e.(*EField)
	if !ok {
		c.fail("held() expects obj.mutexField")
	}
	base := c.eval(f.X)
	return c.termOf(base).String() + "." + f.Name
}

// undefinedLocal: a clause that mentions a local variable on a path where the variable was never declared is evaluated
// with an arbitrary value for it (a fresh constant): the clause then has to hold whatever the value, which is sound for
// obligations; such clauses are written with a guard that is false on those paths.
func (c *EvalCtx) undefinedLocal(name string, t types.Type) TV {
	if p, ok := c.x.params[name]; ok {
		return p // a parameter whose cell is not allocated yet: its entry value
	}
	st := c.st
	v := c.x.freshValue(st, "undef."+name, t)
	return TV{V: v, T: t, S: c.prog.sortOf(t)}
}
