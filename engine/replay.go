package main

// Replay of refutations against the real code: the solver's model is turned into concrete inputs, a Go test generated
// from a driver template is injected into the real package with `go test -overlay` (nothing is written into /repo),
// and the test reports whether the violation shows on the real code.

import (
	"bytes"
	"encoding/json"
	"fmt"
	"os"
	"os/exec"
	"path/filepath"
	"regexp"
	"strconv"
	"strings"
	"text/template"
)

// parseModel extracts nullary definitions (name -> value text) from a solver model.
func parseModel(text string) map[string]string {
	out := map[string]string{}
	re := regexp.MustCompile(`\(define-fun\s+(\S+)\s+\(\)\s+(\S+)\s*`)
	idx := re.FindAllStringSubmatchIndex(text, -1)
	for _, m := range idx {
		name := text[m[2]:m[3]]
		rest := text[m[1]:]
		val := readSexp(rest)
		out[name] = strings.TrimSpace(val)
	}
	return out
}

func readSexp(s string) string {
	s = strings.TrimLeft(s, " \n\t")
	if s == "" {
		return ""
	}
	if s[0] == '"' {
		i := 1
		for i < len(s) {
			if s[i] == '"' {
				if i+1 < len(s) && s[i+1] == '"' {
					i += 2
					continue
				}
				return s[:i+1]
			}
			i++
		}
		return s
	}
	if s[0] != '(' {
		i := strings.IndexAny(s, " \n\t)")
		if i < 0 {
			return s
		}
		return s[:i]
	}
	depth := 0
	inStr := false
	for i := 0; i < len(s); i++ {
		c := s[i]
		if inStr {
			if c == '"' {
				inStr = false
			}
			continue
		}
		switch c {
		case '"':
			inStr = true
		case '(':
			depth++
		case ')':
			depth--
			if depth == 0 {
				return s[:i+1]
			}
		}
	}
	return s
}

// smtStringToGo decodes an SMT-LIB string literal into a Go string.
func smtStringToGo(lit string) (string, bool) {
	if len(lit) < 2 || lit[0] != '"' || lit[len(lit)-1] != '"' {
		return "", false
	}
	body := lit[1 : len(lit)-1]
	body = strings.ReplaceAll(body, `""`, `"`)
	var b strings.Builder
	for i := 0; i < len(body); {
		if strings.HasPrefix(body[i:], `\u{`) {
			j := strings.Index(body[i:], "}")
			if j > 0 {
				v, err := strconv.ParseInt(body[i+3:i+j], 16, 32)
				if err == nil {
					if v < 256 {
						b.WriteByte(byte(v))
					} else {
						b.WriteRune(rune(v))
					}
					i += j + 1
					continue
				}
			}
		}
		if strings.HasPrefix(body[i:], `\u`) && i+6 <= len(body) {
			v, err := strconv.ParseInt(body[i+2:i+6], 16, 32)
			if err == nil {
				b.WriteRune(rune(v))
				i += 6
				continue
			}
		}
		b.WriteByte(body[i])
		i++
	}
	return b.String(), true
}

func smtIntToGo(v string) (int64, bool) {
	v = strings.TrimSpace(v)
	if strings.HasPrefix(v, "(-") {
		inner := strings.TrimSpace(strings.TrimSuffix(strings.TrimPrefix(v, "(-"), ")"))
		n, err := strconv.ParseInt(inner, 10, 64)
		return -n, err == nil
	}
	n, err := strconv.ParseInt(v, 10, 64)
	return n, err == nil
}

// replayTimeout is the go test timeout of injected tests (longer in the thorough tier, where bounded drivers widen their space)
var replayTimeout = "120s"

type replayDriver struct {
	Pkg     string // package directory relative to the repo, e.g. internal/hashing
	Body    string
	Flags   []string // extra go test flags (e.g. -race)
	Confirm string   // regexp over the test output that confirms the violation (default: REPLAY-CONFIRMED)
	// source rewrites applied to an overlay copy of a repository file for this replay only (yield points for schedules):
	// "// rewrite: <file>" followed by pairs "// rewrite-old: <text>" / "// rewrite-new: <text>" (\n and \t escapes)
	Rewrites []srcRewrite
}

type srcRewrite struct {
	File     string
	Old, New string
}

func loadDriver(verif, name string) (*replayDriver, error) {
	data, err := os.ReadFile(filepath.Join(verif, "replay", name+".tmpl"))
	if err != nil {
		return nil, err
	}
	text := string(data)
	d := &replayDriver{}
	if m := regexp.MustCompile(`(?m)^// pkg: *(\S+)`).FindStringSubmatch(text); m != nil {
		d.Pkg = m[1]
	} else {
		return nil, fmt.Errorf("driver %s: missing '// pkg:' line", name)
	}
	if m := regexp.MustCompile(`(?m)^// flags: *(.+)$`).FindStringSubmatch(text); m != nil {
		d.Flags = strings.Fields(m[1])
	}
	if m := regexp.MustCompile(`(?m)^// confirm-regex: *(.+)$`).FindStringSubmatch(text); m != nil {
		d.Confirm = strings.TrimSpace(m[1])
	}
	curFile := ""
	unesc := strings.NewReplacer(`\n`, "\n", `\t`, "\t")
	var pendingOld *string
	for _, l := range strings.Split(text, "\n") {
		switch {
		case strings.HasPrefix(l, "// rewrite: "):
			curFile = strings.TrimSpace(strings.TrimPrefix(l, "// rewrite: "))
		case strings.HasPrefix(l, "// rewrite-old: "):
			o := unesc.Replace(strings.TrimPrefix(l, "// rewrite-old: "))
			pendingOld = &o
		case strings.HasPrefix(l, "// rewrite-new: ") && pendingOld != nil:
			d.Rewrites = append(d.Rewrites, srcRewrite{File: curFile, Old: *pendingOld, New: unesc.Replace(strings.TrimPrefix(l, "// rewrite-new: "))})
			pendingOld = nil
		}
	}
	d.Body = text
	return d, nil
}

// modelLookup finds the model value of an input by its base name (lem.<n>, in.<n>!k).
func modelLookup(model map[string]string, base string) (string, bool) {
	if v, ok := model["lem."+base]; ok {
		return v, true
	}
	best := ""
	for k, v := range model {
		if strings.HasPrefix(k, "in."+base+"!") {
			if best == "" || k < best {
				best = k
				_ = v
			}
		}
	}
	if best != "" {
		return model[best], true
	}
	return "", false
}

func tryReplay(prog *Program, ps *PropSpec, o *Obligation, repo, verif string) (bool, string) {
	driverName := ""
	for re, d := range ps.Replays {
		if ok, _ := regexp.MatchString(re, o.Name); ok {
			driverName = d
		}
	}
	if driverName == "" {
		if o.Status == "unknown" {
			return false, ""
		}
		return false, "no replay driver registered for this obligation"
	}
	drv, err := loadDriver(verif, driverName)
	if err != nil {
		return false, "replay driver: " + err.Error()
	}
	model := parseModel(o.Model)
	missing := ""
	funcs := template.FuncMap{
		"str": func(name string) string {
			v, ok := modelLookup(model, name)
			if !ok {
				// unconstrained inputs do not appear in the model: any value works
				return `""`
			}
			s, ok := smtStringToGo(v)
			if !ok {
				missing += " " + name
				return `""`
			}
			return strconv.Quote(s)
		},
		"int": func(name string) string {
			v, ok := modelLookup(model, name)
			if !ok {
				return "0"
			}
			n, ok := smtIntToGo(v)
			if !ok {
				missing += " " + name
				return "0"
			}
			return strconv.FormatInt(n, 10)
		},
		"bool": func(name string) string {
			v, ok := modelLookup(model, name)
			if !ok {
				return "false"
			}
			return strings.TrimSpace(v)
		},
	}
	tpl, err := template.New(driverName).Funcs(funcs).Parse(drv.Body)
	if err != nil {
		return false, "replay driver template: " + err.Error()
	}
	var buf bytes.Buffer
	if err := tpl.Execute(&buf, nil); err != nil {
		return false, "replay driver template: " + err.Error()
	}
	if missing != "" {
		return false, "model values not convertible:" + missing
	}
	out, confirmed := runOverlayTestRW(repo, drv.Pkg, buf.String(), drv.Flags, drv.Confirm, drv.Rewrites)
	o.Model += "\n--- replay test (" + driverName + ") ---\n" + buf.String() + "\n--- replay output ---\n" + out + "\n"
	if confirmed {
		return true, "replayed on the real code: violation confirmed"
	}
	return false, "replay on the real code did not reproduce the violation"
}

// runOverlayTest injects testSrc as a _test.go file of package dir pkg and runs TestVerifReplay.
func runOverlayTest(repo, pkg, testSrc string, flags []string, confirm string) (string, bool) {
	return runOverlayTestRW(repo, pkg, testSrc, flags, confirm, nil)
}

func runOverlayTestRW(repo, pkg, testSrc string, flags []string, confirm string, rewrites []srcRewrite) (string, bool) {
	tmp, err := os.MkdirTemp("", "govc-replay-")
	if err != nil {
		return err.Error(), false
	}
	defer os.RemoveAll(tmp)
	rewritten := map[string]string{}
	for i, rw := range rewrites {
		src, ok := rewritten[rw.File]
		if !ok {
			data, err := os.ReadFile(filepath.Join(repo, rw.File))
			if err != nil {
				return "rewrite: " + err.Error(), false
			}
			src = string(data)
		}
		if !strings.Contains(src, rw.Old) {
			return fmt.Sprintf("rewrite %d: the text to instrument was not found in %s (the code changed shape; no schedule replay possible)", i+1, rw.File), false
		}
		rewritten[rw.File] = strings.Replace(src, rw.Old, rw.New, 1)
	}
	testFile := filepath.Join(tmp, "zz_verif_replay_test.go")
	if err := os.WriteFile(testFile, []byte(testSrc), 0o644); err != nil {
		return err.Error(), false
	}
	ov := map[string]map[string]string{"Replace": {filepath.Join(repo, pkg, "zz_verif_replay_test.go"): testFile}}
	k := 0
	for f, src := range rewritten {
		k++
		rf := filepath.Join(tmp, fmt.Sprintf("rewritten%d.go", k))
		os.WriteFile(rf, []byte(src), 0o644)
		ov["Replace"][filepath.Join(repo, f)] = rf
	}
	ovData, _ := json.Marshal(ov)
	ovFile := filepath.Join(tmp, "overlay.json")
	os.WriteFile(ovFile, ovData, 0o644)
	args := []string{"test", "-overlay", ovFile, "-vet=off", "-v", "-count=1", "-timeout", replayTimeout}
	args = append(args, flags...)
	args = append(args, "-run", "TestVerifReplay", "./"+pkg+"/")
	cmd := exec.Command("go", args...)
	cmd.Dir = repo
	cmd.Env = goEnv()
	var buf bytes.Buffer
	cmd.Stdout = &buf
	cmd.Stderr = &buf
	_ = cmd.Run()
	out := buf.String()
	if len(out) > 8000 {
		out = out[:8000] + "\n...(truncated)"
	}
	if confirm != "" {
		ok, _ := regexp.MatchString(confirm, out)
		return out, ok
	}
	return out, strings.Contains(out, "REPLAY-CONFIRMED")
}
