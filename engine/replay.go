package main

// Replay of refutations against the real code (filled in per driver).

func tryReplay(prog *Program, ps *PropSpec, o *Obligation, repo, verif string) (bool, string) {
	return false, ""
}
