package main

// Registering spec functions, axioms and spec-level lemmas.

import (
	"go/types"
	"fmt"
	"strings"
)

func (p *Program) specCtx(vars map[string]TV) *EvalCtx {
	x := &Exec{prog: p, fresh: map[string]bool{}}
	return &EvalCtx{x: x, prog: p, st: newState(), old: nil, vars: vars, noLocals: true}
}

func (p *Program) RegisterSpecs() (err error) {
	defer func() {
		if r := recover(); r != nil {
			if e, ok := r.(evalError); ok {
				err = fmt.Errorf("spec: %s", e.msg)
				return
			}
			if u, ok := r.(unsupported); ok {
				err = fmt.Errorf("spec: %s", u.msg)
				return
			}
			panic(r)
		}
	}()
	for s := range p.Spec.Sorts {
		p.U.OpaqueSrt[Sort(s)] = true
	}
	// declare all signatures first (bodies may be mutually referential)
	type pending struct {
		f    *SpecFn
		decl *FunDecl
		vars map[string]TV
	}
	var pend []pending
	for _, f := range p.Spec.Fns {
		d := &FunDecl{Name: f.Name, Rec: f.Rec, Opaque: f.Opaque}
		vars := map[string]TV{}
		skipped := false
		for _, pv := range f.Params {
			s, ty, err := p.sortFromText(pv.Type, nil)
			if err != nil {
				if strings.Contains(err.Error(), "unknown package") {
					skipped = true
					break
				}
				return fmt.Errorf("%s:%d: fn %s: %v", f.File, f.Line, f.Name, err)
			}
			d.Params = append(d.Params, BVar{pv.Name, s})
			t := &Term{Kind: KApp, Op: pv.Name, Sort: s}
			if ty != nil {
				vars[pv.Name] = TV{V: (&Exec{prog: p}).fromTerm(t, ty), T: ty, S: s}
			} else {
				vars[pv.Name] = tvTerm(t)
			}
		}
		if skipped {
			p.SkippedSpecs = append(p.SkippedSpecs, "fn "+f.Name)
			continue
		}
		s, retTy, err := p.sortFromText(f.Ret, nil)
		if err != nil {
			if strings.Contains(err.Error(), "unknown package") {
				p.SkippedSpecs = append(p.SkippedSpecs, "fn "+f.Name)
				continue
			}
			return fmt.Errorf("%s:%d: fn %s: %v", f.File, f.Line, f.Name, err)
		}
		d.Ret = s
		if retTy != nil {
			if p.specFnRetType == nil {
				p.specFnRetType = map[string]types.Type{}
			}
			p.specFnRetType[f.Name] = retTy
		}
		if _, dup := p.U.Funs[d.Name]; dup {
			return fmt.Errorf("%s:%d: duplicate spec function %s", f.File, f.Line, f.Name)
		}
		p.U.AddFun(d)
		pend = append(pend, pending{f, d, vars})
	}
	for _, pd := range pend {
		if pd.f.Body == nil {
			continue
		}
		func() {
			defer func() {
				if r := recover(); r != nil {
					if e, ok := r.(evalError); ok {
						if len(p.SkippedSpecs) > 0 && (strings.Contains(e.msg, "unknown function") || strings.Contains(e.msg, "unknown package") || strings.Contains(e.msg, "unknown identifier")) {
							p.SkippedSpecs = append(p.SkippedSpecs, "body of fn "+pd.f.Name)
							delete(p.U.Funs, pd.f.Name)
							return
						}
						panic(evalError{fmt.Sprintf("%s:%d: fn %s: %s", pd.f.File, pd.f.Line, pd.f.Name, e.msg)})
					}
					panic(r)
				}
			}()
			ctx := p.specCtx(pd.vars)
			body := ctx.termOf(ctx.eval(pd.f.Body))
			if body.Sort != pd.decl.Ret {
				panic(evalError{fmt.Sprintf("%s:%d: fn %s: body has sort %s, declared %s", pd.f.File, pd.f.Line, pd.f.Name, body.Sort, pd.decl.Ret)})
			}
			pd.decl.Body = body
		}()
	}
	// ghost state: register sorts so that frames can havoc ghost arrays that were never read
	for _, g := range p.Spec.Ghosts {
		gt, err := p.lookupType(g.TypeText, nil)
		if err != nil {
			continue
		}
		gs, _, err := p.sortFromText(g.SortText, nil)
		if err != nil {
			if strings.Contains(err.Error(), "unknown package") {
				continue
			}
			return fmt.Errorf("ghost field %s.%s: %v", g.TypeText, g.Name, err)
		}
		heapSorts[ghostHeapName(gt, g.Name)] = ArraySort(SInt, gs)
	}
	for _, g := range p.Spec.GhostVars {
		gs, _, err := p.sortFromText(g.Type, nil)
		if err != nil {
			if strings.Contains(err.Error(), "unknown package") {
				continue
			}
			return fmt.Errorf("ghost var %s: %v", g.Name, err)
		}
		heapSorts["GV$"+g.Name] = gs
	}
	for _, a := range p.Spec.Axioms {
		func() {
			defer func() {
				if r := recover(); r != nil {
					if e, ok := r.(evalError); ok {
						if strings.Contains(e.msg, "unknown function") || strings.Contains(e.msg, "unknown package") || strings.Contains(e.msg, "unknown identifier") || strings.Contains(e.msg, "unknown type") {
							p.SkippedSpecs = append(p.SkippedSpecs, "axiom "+a.Name)
							return
						}
						panic(evalError{fmt.Sprintf("%s:%d: axiom %s: %s", a.File, a.Line, a.Name, e.msg)})
					}
					panic(r)
				}
			}()
			ctx := p.specCtx(map[string]TV{})
			t := ctx.termOf(ctx.eval(a.E))
			p.U.Axioms = append(p.U.Axioms, &Axiom{Name: a.Name, T: t})
			if a.Theorem {
				p.Theorems = append(p.Theorems, &TheoremOb{Name: a.Name, T: t, Reveal: a.Reveal, Text: a.Text, Where: fmt.Sprintf("%s:%d", a.File, a.Line)})
			}
		}()
	}
	return nil
}

// LemmaObligation turns a spec lemma into an obligation (parameters universally quantified, i.e. skolemised).
func (p *Program) LemmaObligation(lm *SpecLemma) (ob *Obligation, err error) {
	defer func() {
		if r := recover(); r != nil {
			if e, ok := r.(evalError); ok {
				err = fmt.Errorf("%s:%d: lemma %s: %s", lm.File, lm.Line, lm.Name, e.msg)
				return
			}
			panic(r)
		}
	}()
	vars := map[string]TV{}
	st := newState()
	x := &Exec{prog: p, fresh: map[string]bool{}}
	for _, pv := range lm.Params {
		s, ty, err := p.sortFromText(pv.Type, nil)
		if err != nil {
			return nil, fmt.Errorf("%s:%d: lemma %s: %v", lm.File, lm.Line, lm.Name, err)
		}
		name := "lem." + pv.Name
		st.addLine(Line{Kind: LDecl, Name: name, Sort: s})
		t := Const(name, s)
		if ty != nil {
			vars[pv.Name] = TV{V: x.fromTerm(t, ty), T: ty, S: s}
			x.assumeTypeInv(st, t, ty)
		} else {
			vars[pv.Name] = tvTerm(t)
		}
	}
	ctx := &EvalCtx{x: x, prog: p, st: st, vars: vars, noLocals: true}
	for _, r := range lm.Requires {
		st.assume(ctx.termOf(ctx.eval(r.E)), "lemma hypothesis ["+r.Label+"]")
	}
	goal := ctx.termOf(ctx.eval(lm.E))
	ob = &Obligation{Name: "lemma:" + lm.Name, Fn: "(spec)", Kind: "lemma", Label: lm.Name, Clause: lm.Text,
		Where: fmt.Sprintf("%s:%d", lm.File, lm.Line)}
	rv := map[string]bool{}
	for _, n := range lm.Reveal {
		rv[n] = true
	}
	ob.Queries = []*Query{{U: p.U, Lines: st.allLines(), Goal: goal, Reveal: rv, NoAxioms: lm.NoAxioms}}
	ob.Traces = [][]string{nil}
	return ob, nil
}

// LemmaStatement: the lemma as an instantiable schema (used when a contract says `uses <lemma>`).
func (p *Program) LemmaStatement(name string) (li *LemmaInst, err error) {
	var lm *SpecLemma
	for _, l := range p.Spec.Lemmas {
		if l.Name == name {
			lm = l
		}
	}
	if lm == nil {
		return nil, fmt.Errorf("unknown lemma %q", name)
	}
	defer func() {
		if r := recover(); r != nil {
			if e, ok := r.(evalError); ok {
				err = fmt.Errorf("lemma %s: %s", name, e.msg)
				return
			}
			panic(r)
		}
	}()
	vars := map[string]TV{}
	var bs []BVar
	x := &Exec{prog: p, fresh: map[string]bool{}}
	for _, pv := range lm.Params {
		s, ty, err := p.sortFromText(pv.Type, nil)
		if err != nil {
			return nil, err
		}
		bn := pv.Name + "!l"
		bs = append(bs, BVar{bn, s})
		bt := &Term{Kind: KApp, Op: bn, Sort: s}
		if ty != nil {
			vars[pv.Name] = TV{V: x.fromTerm(bt, ty), T: ty, S: s}
		} else {
			vars[pv.Name] = tvTerm(bt)
		}
	}
	ctx := &EvalCtx{x: x, prog: p, st: newState(), vars: vars, noLocals: true}
	var hyps []*Term
	for _, r := range lm.Requires {
		hyps = append(hyps, ctx.termOf(ctx.eval(r.E)))
	}
	body := Implies(And(hyps...), ctx.termOf(ctx.eval(lm.E)))
	// trigger: an uninterpreted application whose arguments are exactly the parameters
	var trig *Term
	var find func(t *Term)
	find = func(t *Term) {
		if t == nil || trig != nil {
			return
		}
		if t.Kind == KApp && t.Sym && len(t.Args) == len(bs) {
			ok := true
			for i, a := range t.Args {
				if !(a.Kind == KApp && len(a.Args) == 0 && a.Op == bs[i].Name) {
					ok = false
				}
			}
			if ok {
				trig = t
				return
			}
		}
		for _, a := range t.Args {
			find(a)
		}
	}
	find(body)
	if trig == nil {
		return nil, fmt.Errorf("lemma %s has no trigger (an application of a spec function to exactly its parameters)", name)
	}
	return &LemmaInst{Name: name, Params: bs, Trigger: trig, Body: body}, nil
}

type TheoremOb struct {
	Name   string
	T      *Term
	Reveal []string
	Text   string
	Where  string
}

// TheoremObligation: a theorem is proved from the definitions it reveals and the other axioms, never from itself.
func (p *Program) TheoremObligation(th *TheoremOb) *Obligation {
	rv := map[string]bool{}
	for _, n := range th.Reveal {
		rv[n] = true
	}
	ob := &Obligation{Name: "theorem:" + th.Name, Fn: "(spec)", Kind: "lemma", Label: th.Name, Clause: th.Text, Where: th.Where}
	ob.Queries = []*Query{{U: p.U, Goal: th.T, Reveal: rv, ExcludeAxiom: th.Name}}
	ob.Traces = [][]string{nil}
	return ob
}
