module govc

go 1.26.0

require golang.org/x/tools v0.50.0

require (
	golang.org/x/mod v0.41.0 // indirect
	golang.org/x/sync v0.23.0 // indirect
)
