package main

// Solver portfolio.

import (
	"bytes"
	"context"
	"fmt"
	"os"
	"os/exec"
	"path/filepath"
	"strings"
	"sync"
	"time"
)

type SolverResult struct {
	Solver string
	Result string // unsat | sat | unknown | timeout | error
	Ms     int64
	Output string
}

type Portfolio struct {
	Dir       string
	TimeoutMs int
	Solvers   []string // names in priority order
	Seed      int
	All       bool // run every solver and check agreement (thorough)
	mu        sync.Mutex
	n         int
	TotalMs   int64
}

func solverCmd(name, file string, timeoutMs int, seed int) *exec.Cmd {
	switch name {
	case "cvc5":
		return exec.Command("cvc5", "--lang=smt2", "--strings-exp", fmt.Sprintf("--tlimit=%d", timeoutMs), fmt.Sprintf("--seed=%d", seed), file)
	case "z3-new":
		return exec.Command("z3-new", "-smt2", fmt.Sprintf("-t:%d", timeoutMs), fmt.Sprintf("smt.random_seed=%d", seed), file)
	case "z3":
		return exec.Command("z3", "-smt2", fmt.Sprintf("-t:%d", timeoutMs), fmt.Sprintf("smt.random_seed=%d", seed), file)
	}
	return nil
}

func parseSolverOutput(out string) string {
	for _, l := range strings.Split(out, "\n") {
		l = strings.TrimSpace(l)
		switch l {
		case "unsat", "sat", "unknown", "timeout":
			return l
		}
		if strings.HasPrefix(l, "(error") {
			return "error"
		}
	}
	return "unknown"
}

func runSolver(ctx context.Context, name, file string, timeoutMs, seed int) SolverResult {
	cmd := solverCmd(name, file, timeoutMs, seed)
	var buf bytes.Buffer
	cmd.Stdout = &buf
	cmd.Stderr = &buf
	start := time.Now()
	if err := cmd.Start(); err != nil {
		return SolverResult{Solver: name, Result: "error", Output: err.Error()}
	}
	done := make(chan error, 1)
	go func() { done <- cmd.Wait() }()
	hard := time.After(time.Duration(timeoutMs+2000) * time.Millisecond)
	select {
	case <-done:
	case <-ctx.Done():
		_ = cmd.Process.Kill()
		<-done
		return SolverResult{Solver: name, Result: "cancelled", Ms: time.Since(start).Milliseconds()}
	case <-hard:
		_ = cmd.Process.Kill()
		<-done
		return SolverResult{Solver: name, Result: "timeout", Ms: time.Since(start).Milliseconds()}
	}
	out := buf.String()
	return SolverResult{Solver: name, Result: parseSolverOutput(out), Ms: time.Since(start).Milliseconds(), Output: out}
}

// Solve one query: race the solvers; the first decisive answer wins.
func (p *Portfolio) Solve(q *Query, tag string) (SolverResult, []SolverResult) {
	p.mu.Lock()
	p.n++
	id := p.n
	p.mu.Unlock()
	file := filepath.Join(p.Dir, fmt.Sprintf("q%05d_%s.smt2", id, sanitize(tag)))
	text := q.Render(false)
	if err := os.WriteFile(file, []byte(text), 0o644); err != nil {
		return SolverResult{Result: "error", Output: err.Error()}, nil
	}
	ctx, cancel := context.WithCancel(context.Background())
	defer cancel()
	ch := make(chan SolverResult, len(p.Solvers))
	tmo := p.TimeoutMs
	if q.TimeoutMs > 0 {
		tmo = q.TimeoutMs
	}
	for _, s := range p.Solvers {
		go func(s string) { ch <- runSolver(ctx, s, file, tmo, p.Seed) }(s)
	}
	var all []SolverResult
	var winner *SolverResult
	for range p.Solvers {
		r := <-ch
		all = append(all, r)
		if (r.Result == "unsat" || r.Result == "sat") && winner == nil {
			rr := r
			winner = &rr
			if !p.All {
				cancel()
			}
		}
	}
	var total int64
	for _, r := range all {
		total += r.Ms
	}
	p.mu.Lock()
	p.TotalMs += total
	p.mu.Unlock()
	if winner == nil {
		// report the most informative non-answer
		best := all[0]
		for _, r := range all {
			if r.Result == "error" && best.Result != "error" {
				continue
			}
			if best.Result == "error" || best.Result == "cancelled" {
				best = r
			}
		}
		return best, all
	}
	if p.All {
		for _, r := range all {
			if (r.Result == "unsat" || r.Result == "sat") && r.Result != winner.Result {
				return SolverResult{Solver: "portfolio", Result: "disagreement", Output: fmt.Sprintf("%s says %s, %s says %s", winner.Solver, winner.Result, r.Solver, r.Result)}, all
			}
		}
	}
	if winner.Result == "sat" && q.Goal != nil {
		// get a model from the winning solver
		mfile := file + ".model.smt2"
		_ = os.WriteFile(mfile, []byte(q.Render(true)), 0o644)
		mr := runSolver(context.Background(), winner.Solver, mfile, p.TimeoutMs, p.Seed)
		if mr.Result == "sat" {
			winner.Output = mr.Output
		}
	}
	return *winner, all
}

// DischargeAll runs all obligations' queries on a worker pool.
func (p *Portfolio) DischargeAll(obs []*Obligation, workers int) {
	type job struct {
		ob  *Obligation
		idx int
	}
	var jobs []job
	for _, ob := range obs {
		for i := range ob.Queries {
			jobs = append(jobs, job{ob, i})
		}
	}
	type res struct {
		j job
		r SolverResult
	}
	results := make([]res, len(jobs))
	var wg sync.WaitGroup
	sem := make(chan struct{}, workers)
	for k, j := range jobs {
		wg.Add(1)
		sem <- struct{}{}
		go func(k int, j job) {
			defer wg.Done()
			defer func() { <-sem }()
			r, _ := p.Solve(j.ob.Queries[j.idx], j.ob.Name)
			results[k] = res{j, r}
		}(k, j)
	}
	wg.Wait()
	for _, ob := range obs {
		ob.Status = "discharged"
		ob.FailIdx = -1
		if len(ob.Queries) == 0 {
			ob.Solver = "trivial"
		}
	}
	coverSat := map[*Obligation]bool{}
	for _, r := range results {
		if r.j.ob.Kind == "cover" {
			r.j.ob.Ms += r.r.Ms
			if r.r.Result != "unsat" {
				coverSat[r.j.ob] = true
				r.j.ob.Solver = r.r.Solver
			}
		}
	}
	for _, ob := range obs {
		if ob.Kind == "cover" {
			if coverSat[ob] {
				ob.Status = "discharged"
			} else {
				ob.Status = "unknown"
				ob.Detail = "vacuous: no return path is satisfiable under the precondition"
			}
		}
	}
	for _, r := range results {
		ob := r.j.ob
		if ob.Kind == "cover" {
			continue
		}
		ob.Ms += r.r.Ms
		switch r.r.Result {
		case "unsat":
			if ob.Solver == "" {
				ob.Solver = r.r.Solver
			} else if !strings.Contains(ob.Solver, r.r.Solver) {
				ob.Solver += "+" + r.r.Solver
			}
		case "sat":
			if ob.Status != "failed" {
				ob.Status = "failed"
				ob.Model = r.r.Output
				ob.FailIdx = r.j.idx
				ob.Detail = "sat (" + r.r.Solver + ")"
			}
		default:
			if ob.Status == "discharged" {
				ob.Status = "unknown"
				ob.FailIdx = r.j.idx
				ob.Detail = r.r.Result + " (" + r.r.Solver + "): " + firstLines(r.r.Output, 3)
			}
		}
	}
}

func firstLines(s string, n int) string {
	ls := strings.Split(strings.TrimSpace(s), "\n")
	if len(ls) > n {
		ls = ls[:n]
	}
	return strings.Join(ls, " | ")
}
