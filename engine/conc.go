package main

// Ghost encodings for concurrency: locksets, guarded-by, spawn rule, channel counters.

import (
	"fmt"
	"go/token"
	"go/types"

	"golang.org/x/tools/go/ssa"
)

func (x *Exec) ptrKey(p *Ptr) string {
	if p == nil {
		return "?"
	}
	base := "?"
	switch {
	case p.Ref != nil:
		base = p.Ref.String()
	case p.Cell != nil:
		base = fmt.Sprintf("cell%d", p.Cell.ID)
	case p.Global != nil:
		base = x.globalName(p.Global)
	}
	t := p.Elem
	for _, e := range p.Path {
		if e.IsIndex {
			base += "[" + e.Index.String() + "]"
			continue
		}
		if st, ok := t.Underlying().(*types.Struct); ok {
			base += "." + st.Field(e.Field).Name()
			t = st.Field(e.Field).Type()
		}
	}
	return base
}

func (x *Exec) lockOp(st *State, in ssa.Instruction, p *Ptr, lock bool) {
	key := x.ptrKey(p)
	x.externsUsed["sync.Mutex (built-in: lockset ghost; Lock assumes the lock invariant, Unlock asserts it)"] = true
	if lock {
		st.held[key] = true
		x.lockInvariant(st, in, p, false)
		return
	}
	x.lockInvariant(st, in, p, true)
	delete(st.held, key)
}

// lockInvariant assumes (after Lock) or asserts (before Unlock) the invariants declared for the mutex field.
func (x *Exec) lockInvariant(st *State, in ssa.Instruction, p *Ptr, assert bool) {
	if p == nil || p.Ref == nil || len(p.Path) != 1 || p.Path[0].IsIndex {
		return
	}
	stt, ok := p.Elem.Underlying().(*types.Struct)
	if !ok {
		return
	}
	mname := stt.Field(p.Path[0].Field).Name()
	for _, li := range x.prog.Spec.LockInvs {
		lt, err := x.prog.lookupType(li.TypeText, x.pkg)
		if err != nil || !types.Identical(lt, p.Elem) || li.Mutex != mname {
			continue
		}
		self := TV{V: &Ptr{Ref: p.Ref, Elem: p.Elem}, T: types.NewPointer(p.Elem), S: SInt}
		ctx := &EvalCtx{x: x, prog: x.prog, st: st, old: x.entry, vars: map[string]TV{"self": self}, pkg: x.pkg, noLocals: true}
		t := x.evalBool(ctx, li.Clause)
		if assert {
			x.oblige(st, "lockinv", fmt.Sprintf("%s.%s", mname, li.Clause.Label), t, li.Clause.Text)
		} else {
			// the invariant is assumed only when other threads may have run: always sound to assume it after Lock
			// provided every Unlock re-establishes it and the constructor establishes it.
			st.assume(t, "lock invariant "+li.Clause.Label)
		}
	}
}

func (c *EvalCtx) lockKeyTerm(e Expr) string {
	f, ok := e.(*EField)
	if !ok {
		c.fail("lock expression must be obj.mutexField")
	}
	base := c.eval(f.X)
	return c.termOf(base).String() + "." + f.Name
}

func (x *Exec) acquire(st *State, in ssa.Instruction, key string, e Expr, ctx *EvalCtx) {
	st.held[key] = true
}

func (x *Exec) release(st *State, in ssa.Instruction, key string, e Expr, ctx *EvalCtx) {
	delete(st.held, key)
}

// guardDeclFor returns the mutex field guarding (struct type, field), if declared.
func (x *Exec) guardDeclFor(t types.Type, field string) (string, bool) {
	if x.prog.Spec == nil {
		return "", false
	}
	for _, g := range x.prog.Spec.Guards {
		gt, err := x.prog.lookupType(g.TypeText, x.pkg)
		if err != nil || !types.Identical(gt, t) {
			continue
		}
		for _, f := range g.Fields {
			if f == field {
				return g.Mutex, true
			}
		}
	}
	return "", false
}

// guardAccess emits a guard obligation for loads/stores of guarded scalar fields.
func (x *Exec) guardAccess(st *State, in ssa.Instruction, p *Ptr, write bool) {
	if p == nil || p.Ref == nil || len(p.Path) == 0 || p.Path[0].IsIndex {
		return
	}
	stt, ok := p.Elem.Underlying().(*types.Struct)
	if !ok {
		return
	}
	fname := stt.Field(p.Path[0].Field).Name()
	mutex, ok := x.guardDeclFor(p.Elem, fname)
	if !ok {
		return
	}
	// reading a map- or channel-typed field itself is the access to the reference; the contents are checked at Lookup/MapUpdate
	if _, isMap := stt.Field(p.Path[0].Field).Type().Underlying().(*types.Map); isMap {
		return
	}
	x.emitGuard(st, in, p.Ref, fname, mutex)
}

func (x *Exec) emitGuard(st *State, in ssa.Instruction, ref *Term, fname, mutex string) {
	key := ref.String() + "." + mutex
	ok := st.held[key]
	if !ok && !st.shared && x.isExclusive(st, ref) {
		ok = true
	}
	lbl := x.guardOrd[in]
	if lbl == "" {
		lbl = fname + "#?"
	}
	x.oblige(st, "guard", lbl, BoolLit(ok), fmt.Sprintf("%s is accessed with %s held (or the object is still exclusive to this thread)", fname, mutex))
}

func (x *Exec) isExclusive(st *State, ref *Term) bool {
	if x.fresh[ref.String()] {
		return true
	}
	if x.fc != nil {
		for _, n := range x.fc.Notes {
			if n == "exclusive "+x.paramNameOf(ref) {
				return true
			}
		}
	}
	return false
}

func (x *Exec) paramNameOf(ref *Term) string {
	for name, tv := range x.params {
		if p, ok := tv.V.(*Ptr); ok && p.Ref == ref {
			return name
		}
	}
	return "?"
}

// guardMapAccess: map operations on a map loaded from a guarded field.
func (x *Exec) guardMapAccess(st *State, in ssa.Instruction, mv ssa.Value, write bool) {
	u, ok := mv.(*ssa.UnOp)
	if !ok || u.Op != token.MUL {
		return
	}
	fa, ok := u.X.(*ssa.FieldAddr)
	if !ok {
		return
	}
	p, ok := st.regs[fa].(*Ptr)
	if !ok || p.Ref == nil || len(p.Path) != 1 {
		return
	}
	stt, ok := p.Elem.Underlying().(*types.Struct)
	if !ok {
		return
	}
	fname := stt.Field(p.Path[0].Field).Name()
	mutex, ok := x.guardDeclFor(p.Elem, fname)
	if !ok {
		return
	}
	x.emitGuard(st, in, p.Ref, fname, mutex)
}

// numberGuards assigns stable ordinals "<field>#k" to accesses of guarded fields.
func (x *Exec) numberGuards() {
	x.guardOrd = map[ssa.Instruction]string{}
	if x.prog.Spec == nil || len(x.prog.Spec.Guards) == 0 {
		return
	}
	counts := map[string]int{}
	fieldOf := func(v ssa.Value) (string, bool) {
		fa, ok := v.(*ssa.FieldAddr)
		if !ok {
			return "", false
		}
		pt, ok := fa.X.Type().Underlying().(*types.Pointer)
		if !ok {
			return "", false
		}
		stt, ok := pt.Elem().Underlying().(*types.Struct)
		if !ok {
			return "", false
		}
		fname := stt.Field(fa.Field).Name()
		if _, ok := x.guardDeclFor(pt.Elem(), fname); !ok {
			return "", false
		}
		return fname, true
	}
	for _, b := range x.fn.Blocks {
		for _, in := range b.Instrs {
			var fname string
			var ok bool
			switch v := in.(type) {
			case *ssa.Store:
				fname, ok = fieldOf(v.Addr)
			case *ssa.UnOp:
				if v.Op == token.MUL {
					fname, ok = fieldOf(v.X)
					if ok {
						if _, isMap := v.Type().Underlying().(*types.Map); isMap {
							ok = false
						}
					}
				}
			case *ssa.Lookup:
				if u, isU := v.X.(*ssa.UnOp); isU && u.Op == token.MUL {
					fname, ok = fieldOf(u.X)
				}
			case *ssa.MapUpdate:
				if u, isU := v.Map.(*ssa.UnOp); isU && u.Op == token.MUL {
					fname, ok = fieldOf(u.X)
				}
			}
			if ok {
				counts[fname]++
				x.guardOrd[in] = fmt.Sprintf("%s#%d", fname, counts[fname])
			}
		}
	}
}

// goStmt: the spawn rule. The callee's precondition is asserted at the spawn; the path becomes shared.
func (x *Exec) goStmt(st *State, g *ssa.Go) {
	c := g.Common()
	var args []Value
	for _, a := range c.Args {
		args = append(args, x.get(st, a))
	}
	if !c.IsInvoke() {
		if fv, ok := x.get(st, c.Value).(*FuncVal); ok && fv.Fn != nil {
			key := funcKey(fv.Fn)
			if fc, ok := x.prog.Contracts[key]; ok {
				x.assertRequiresOnly(st, g, fc, fv.Fn, fv, args, shortFuncName(key))
			}
			if sw, ok := x.prog.Contracts[key+"@spawn"]; ok {
				_ = sw
			}
		}
	}
	st.shared = true
}

func (x *Exec) assertRequiresOnly(st *State, in ssa.Instruction, fc *FuncContract, f *ssa.Function, fv *FuncVal, args []Value, shortName string) {
	vars := map[string]TV{}
	if len(f.Params) == 0 && f.Signature != nil {
		// a function without a body (external): parameters by position from the signature, named as in the contract
		var ptypes []types.Type
		if f.Signature.Recv() != nil {
			ptypes = append(ptypes, f.Signature.Recv().Type())
		}
		for i := 0; i < f.Signature.Params().Len(); i++ {
			ptypes = append(ptypes, f.Signature.Params().At(i).Type())
		}
		for i, a := range args {
			if i < len(ptypes) && i < len(fc.Params) {
				vars[fc.Params[i]] = TV{V: a, T: ptypes[i], S: x.prog.sortOf(ptypes[i])}
			}
		}
	}
	for i, a := range args {
		if i < len(f.Params) {
			tv := TV{V: a, T: f.Params[i].Type(), S: x.prog.sortOf(f.Params[i].Type())}
			vars[f.Params[i].Name()] = tv
			if i < len(fc.Params) {
				vars[fc.Params[i]] = tv
			}
		}
	}
	for i, b := range fv.Bind {
		if i < len(f.FreeVars) {
			if p, ok := b.(*Ptr); ok {
				val, t := x.load(st, p)
				vars[f.FreeVars[i].Name()] = TV{V: val, T: t, S: x.prog.sortOf(t)}
				if bn := x.prog.baseFreeVarName(f, i); bn != "" {
					vars[bn] = vars[f.FreeVars[i].Name()]
				}
			}
		}
	}
	pkg := x.pkg
	if f.Pkg != nil {
		pkg = f.Pkg.Pkg
	}
	for _, c := range fc.Requires {
		ctx := &EvalCtx{x: x, prog: x.prog, st: st, old: st, vars: vars, pkg: pkg, noLocals: true}
		t := x.evalBool(ctx, c)
		x.oblige(st, "spawn", fmt.Sprintf("%s.%s#%d", lastName(shortName), c.Label, x.callOrd[in]), t, c.Text)
	}
	// ghost assignments of a spawned routine are recorded when it is issued
	pre := st.clone()
	x.applyGhostSets(st, fc, &EvalCtx{x: x, prog: x.prog, st: st, old: pre, vars: vars, pkg: pkg, noLocals: true})
}

// channels

func (x *Exec) chanGet(st *State, name string, ref *Term, s Sort) *Term {
	return selectS(x.heapGet(st, name, s), ref)
}

func (x *Exec) send(st *State, v *ssa.Send) {
	ch := x.toTerm(st, x.get(st, v.Chan), v.Chan.Type())
	capT := x.chanGet(st, "C$cap", ch, SInt)
	sent := x.chanGet(st, "C$sent", ch, SInt)
	if x.fc != nil || x.sweep {
		x.oblige(st, "chan", x.safeOrd[v], Lt(sent, capT), "blocking send has buffer space (sends so far < capacity)")
	}
	x.heapSet(st, "C$sent", Store(x.heapGet(st, "C$sent", SInt), ch, Add(sent, IntLit(1))))
}

func (x *Exec) recv(st *State, v *ssa.UnOp) {
	st.recvd[x.toTerm(st, x.get(st, v.X), v.X.Type()).String()] = true
	st.recvdT = append(st.recvdT, x.toTerm(st, x.get(st, v.X), v.X.Type()))
	et := v.X.Type().Underlying().(*types.Chan).Elem()
	val := x.freshValue(st, "recv", et)
	if v.CommaOk {
		st.regs[v] = Tuple{val, x.freshConst(st, "recvok", SBool)}
		return
	}
	st.regs[v] = val
}

func (x *Exec) closeChan(st *State, in ssa.Instruction, ch *Term) {
	closed := x.chanGet(st, "C$closed", ch, SBool)
	if x.fc != nil || x.sweep {
		x.oblige(st, "safe", "close#"+fmt.Sprint(x.callOrd[in]), Not(closed), "close of a channel that is not already closed")
	}
	x.heapSet(st, "C$closed", Store(x.heapGet(st, "C$closed", SBool), ch, True))
}

func (x *Exec) selectStmt(st *State, v *ssa.Select) []*State {
	// result tuple: (index int, recvOk bool, r_0 T_0, ... r_n-1 T_n-1)
	mk := func(s *State, idx int) {
		tup := Tuple{IntLit(int64(idx)), x.freshConst(s, "recvok", SBool)}
		for _, sc := range v.States {
			if sc.Dir == types.RecvOnly {
				et := sc.Chan.Type().Underlying().(*types.Chan).Elem()
				tup = append(tup, x.freshValue(s, "recv", et))
			}
		}
		s.regs[v] = tup
		if idx >= 0 && idx < len(v.States) && v.States[idx].Dir == types.RecvOnly {
			s.recvd[x.toTerm(s, x.get(s, v.States[idx].Chan), v.States[idx].Chan.Type()).String()] = true
			s.recvdT = append(s.recvdT, x.toTerm(s, x.get(s, v.States[idx].Chan), v.States[idx].Chan.Type()))
		}
		s.trace = append(s.trace, fmt.Sprintf("%s: select case %d", x.where(v), idx))
	}
	var forks []*State
	n := len(v.States)
	total := n
	if !v.Blocking {
		total = n + 1
	}
	for i := 1; i < total; i++ {
		f := st.clone()
		idx := i
		if i == n {
			idx = -1
		}
		mk(f, idx)
		forks = append(forks, f)
	}
	if total == 0 {
		st.dead = true
		return nil
	}
	mk(st, 0)
	return forks
}

// lockProtocol implements `lock_protocol m guards v [label] expr` for mutexes that are local variables (possibly captured
// by the closure under verification). Acquire: other threads may have changed v's contents while the lock was free - the
// contents are havoced and the clause is assumed with old() = the state before the havoc. Release: the clause is asserted
// with old() = the state right after the matching acquire. A lookup made under one critical section is therefore worthless
// in the next one.
func (x *Exec) lockProtocol(st *State, in ssa.Instruction, acquire bool) {
	if x.fc == nil || len(x.fc.LockProtocols) == 0 {
		return
	}
	ci, ok := in.(ssa.CallInstruction)
	if !ok || len(ci.Common().Args) == 0 {
		return
	}
	name := ""
	switch r := ci.Common().Args[0].(type) {
	case *ssa.FreeVar:
		name = r.Name()
	case *ssa.Alloc:
		name = r.Comment
	}
	if name == "" {
		return
	}
	for _, lp := range x.fc.LockProtocols {
		want := lp.Mutex
		if r, ok := x.prog.renamedLocal(x.fn, lp.Mutex); ok {
			want = r
		}
		if want != name {
			continue
		}
		if acquire {
			pre := st.clone()
			ctx := x.ctxFor(st, pre, nil)
			x.havocModifies(st, ctx, &ECall{Fun: "contents", Args: []Expr{&EIdent{Name: lp.Var}}})
			ctx2 := x.ctxFor(st, pre, nil)
			st.assume(x.evalBool(ctx2, lp.Clause), "lock_protocol ["+lp.Clause.Label+"] assumed at acquire of "+name+" (other threads obey it)")
			if x.lockSnap == nil {
				x.lockSnap = map[*State]map[string]*State{}
			}
			if st.lockSnaps == nil {
				st.lockSnaps = map[string]*State{}
			}
			st.lockSnaps[name] = st.clone()
			x.externsUsed["lock_protocol "+name+" guards "+lp.Var+": assumed after every acquire (interference by the other goroutines running the same code), proved before every release"] = true
			continue
		}
		snap := st.lockSnaps[name]
		if snap == nil {
			continue
		}
		ctx := x.ctxFor(st, snap, nil)
		x.oblige(st, "guard", "lock_protocol."+lp.Clause.Label+"@"+lp.Mutex, x.evalBool(ctx, lp.Clause), lp.Clause.Text)
	}
}
