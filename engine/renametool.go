package main

import (
	"flag"
	"fmt"
	"go/ast"
	"go/token"
	"go/types"
	"os"
	"sort"
	"strings"

	"golang.org/x/tools/go/packages"
)

// cmdRenameLocals rewrites, in place, every non-test Go file under <repo>/internal: each local variable declared inside a
// function body (not parameters, results, fields or package-level names) gets the given suffix. It is a selftest tool: the
// result is a tree that behaves exactly like the original, on which no check may raise an alarm.
func cmdRenameLocals(args []string) int {
	fs := flag.NewFlagSet("rename-locals", flag.ExitOnError)
	repo := fs.String("repo", "", "scratch copy of the repository (never /repo)")
	suffix := fs.String("suffix", "Rn", "suffix appended to every local variable name")
	fs.Parse(args)
	if *repo == "" || *repo == "/repo" {
		fmt.Fprintln(os.Stderr, "rename-locals works on a scratch copy only")
		return 2
	}
	fset := token.NewFileSet()
	cfg := &packages.Config{Mode: packages.LoadSyntax, Dir: *repo, Fset: fset, Env: goEnv(), Tests: false}
	pkgs, err := packages.Load(cfg, "./internal/...")
	if err != nil {
		fmt.Fprintln(os.Stderr, err)
		return 2
	}
	type edit struct {
		off int
		old string
	}
	edits := map[string][]edit{}
	n := 0
	for _, p := range pkgs {
		if len(p.Errors) > 0 {
			fmt.Fprintln(os.Stderr, "load errors in", p.PkgPath, p.Errors[0])
			return 2
		}
		// parameters and named results keep their names
		keep := map[types.Object]bool{}
		for _, f := range p.Syntax {
			ast.Inspect(f, func(nd ast.Node) bool {
				var ft *ast.FuncType
				switch v := nd.(type) {
				case *ast.FuncDecl:
					ft = v.Type
					if v.Recv != nil {
						for _, fl := range v.Recv.List {
							for _, id := range fl.Names {
								keep[p.TypesInfo.Defs[id]] = true
							}
						}
					}
				case *ast.FuncLit:
					ft = v.Type
				}
				if ft != nil {
					for _, l := range []*ast.FieldList{ft.Params, ft.Results} {
						if l == nil {
							continue
						}
						for _, fl := range l.List {
							for _, id := range fl.Names {
								keep[p.TypesInfo.Defs[id]] = true
							}
						}
					}
				}
				return true
			})
		}
		isLocal := func(o types.Object) bool {
			v, ok := o.(*types.Var)
			if !ok || v.IsField() || keep[o] || o.Name() == "_" || o.Pkg() == nil {
				return false
			}
			if o.Parent() == nil || o.Parent() == o.Pkg().Scope() || o.Parent() == types.Universe {
				return false
			}
			return true
		}
		add := func(id *ast.Ident, o types.Object) {
			if o == nil || !isLocal(o) {
				return
			}
			pos := fset.Position(id.Pos())
			if strings.HasSuffix(pos.Filename, "_test.go") || strings.HasSuffix(pos.Filename, "zz_contracts_verif.go") {
				return
			}
			edits[pos.Filename] = append(edits[pos.Filename], edit{pos.Offset, id.Name})
			n++
		}
		for id, o := range p.TypesInfo.Defs {
			add(id, o)
		}
		for id, o := range p.TypesInfo.Uses {
			add(id, o)
		}
		// `switch x := y.(type)`: the per-clause objects are implicit, the symbol itself has no Defs entry
		for _, f := range p.Syntax {
			ast.Inspect(f, func(nd ast.Node) bool {
				if ts, ok := nd.(*ast.TypeSwitchStmt); ok {
					if as, ok := ts.Assign.(*ast.AssignStmt); ok && len(as.Lhs) == 1 {
						if id, ok := as.Lhs[0].(*ast.Ident); ok && id.Name != "_" {
							pos := fset.Position(id.Pos())
							edits[pos.Filename] = append(edits[pos.Filename], edit{pos.Offset, id.Name})
						}
					}
				}
				return true
			})
		}
	}
	for file, es := range edits {
		src, err := os.ReadFile(file)
		if err != nil {
			fmt.Fprintln(os.Stderr, err)
			return 2
		}
		sort.Slice(es, func(i, j int) bool { return es[i].off > es[j].off })
		last := -1
		for _, e := range es {
			if e.off == last {
				continue
			}
			last = e.off
			if string(src[e.off:e.off+len(e.old)]) != e.old {
				fmt.Fprintf(os.Stderr, "%s: offset %d does not hold %q\n", file, e.off, e.old)
				return 2
			}
			src = append(src[:e.off+len(e.old)], append([]byte(*suffix), src[e.off+len(e.old):]...)...)
		}
		os.WriteFile(file, src, 0o644)
	}
	fmt.Printf("renamed %d identifier occurrences in %d files\n", n, len(edits))
	return 0
}
