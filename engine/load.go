package main

// Loading /repo with go/packages, building go/ssa in NaiveForm, mapping Go types to sorts.

import (
	"crypto/sha256"
	"fmt"
	"go/ast"
	"go/token"
	"go/types"
	"os"
	"sort"
	"strings"

	"golang.org/x/tools/go/packages"
	"golang.org/x/tools/go/ssa"
	"golang.org/x/tools/go/ssa/ssautil"
)

const modulePath = "grog"

type Program struct {
	specFnRetType map[string]types.Type // Go result types of spec functions declared with a pointer result
	RepoDir  string
	Fset     *token.FileSet
	Pkgs     []*packages.Package
	PkgByPath map[string]*packages.Package
	PkgByName map[string]*packages.Package
	SSA      *ssa.Program
	SSAPkgs  map[string]*ssa.Package
	AllFuncs map[string]*ssa.Function // key: full name, e.g. grog/internal/label.ParseTargetLabel, (*grog/internal/dag.Walker).startNode
	U        *Universe

	Contracts map[string]*FuncContract // by full function name
	Spec      *SpecSet

	typeTags   map[string]int64 // concrete type string -> interface tag
	tagTypes   map[int64]types.Type
	structInfo map[Sort]*types.Struct
	sortCache  map[types.Type]Sort
	fresh      int
	writeSets  map[*ssa.Function]*FrameSet
	writeSetsNoFV map[*ssa.Function]*FrameSet
	srcCache   map[string][]byte
	concTypes  []types.Type
	SkippedSpecs []string
	Theorems   []*TheoremOb
	baseLocals  map[string][]localEntry
	renameCache map[string]map[string]string
	Renames     []string // local variables of contracted functions that were translated from their baseline names
}

// goEnv: the environment for `go list` on /repo (offline, go1.26.8, module mode).
func goEnv() []string {
	var env []string
	for _, e := range os.Environ() {
		k := e
		if i := strings.Index(e, "="); i >= 0 {
			k = e[:i]
		}
		switch k {
		case "PATH", "GOFLAGS", "GOTOOLCHAIN", "GOPROXY", "GOSUMDB", "GOWORK":
			continue
		}
		env = append(env, e)
	}
	env = append(env, "PATH=/opt/veriftools/go1.26.8/bin:"+os.Getenv("PATH"), "GOFLAGS=-mod=mod", "GOTOOLCHAIN=local", "GOPROXY=off", "GOSUMDB=off", "GOWORK=off")
	return env
}

func LoadProgram(repo string, patterns []string) (*Program, error) {
	fset := token.NewFileSet()
	cfg := &packages.Config{
		Mode:       packages.LoadSyntax | packages.NeedModule,
		Dir:        repo,
		Fset:       fset,
		BuildFlags: []string{"-tags=verif"},
		Tests:      false,
		Env:        goEnv(),
	}
	pkgs, err := packages.Load(cfg, patterns...)
	if err != nil {
		return nil, err
	}
	var errs []string
	packages.Visit(pkgs, nil, func(p *packages.Package) {
		for _, e := range p.Errors {
			errs = append(errs, e.Error())
		}
	})
	if len(errs) > 0 {
		return nil, fmt.Errorf("load errors:\n%s", strings.Join(errs, "\n"))
	}
	prog, spkgs := ssautil.Packages(pkgs, ssa.NaiveForm|ssa.GlobalDebug)
	prog.Build()
	p := &Program{
		RepoDir: repo, Fset: fset, Pkgs: pkgs, SSA: prog,
		PkgByPath: map[string]*packages.Package{}, PkgByName: map[string]*packages.Package{},
		SSAPkgs: map[string]*ssa.Package{}, AllFuncs: map[string]*ssa.Function{},
		U: NewUniverse(), Contracts: map[string]*FuncContract{},
		typeTags: map[string]int64{}, tagTypes: map[int64]types.Type{},
		structInfo: map[Sort]*types.Struct{}, sortCache: map[types.Type]Sort{},
		writeSets: map[*ssa.Function]*FrameSet{}, srcCache: map[string][]byte{},
	}
	p.declBytesOf()
	for i, pk := range pkgs {
		p.PkgByPath[pk.PkgPath] = pk
		p.PkgByName[pk.Name] = pk
		if spkgs[i] != nil {
			p.SSAPkgs[pk.PkgPath] = spkgs[i]
		}
	}
	// also index imported packages by name/path for type lookup in specs
	packages.Visit(pkgs, nil, func(pk *packages.Package) {
		if _, ok := p.PkgByPath[pk.PkgPath]; !ok {
			p.PkgByPath[pk.PkgPath] = pk
		}
		if old, ok := p.PkgByName[pk.Name]; !ok || (!strings.HasPrefix(old.PkgPath, modulePath+"/") && strings.HasPrefix(pk.PkgPath, modulePath+"/")) {
			p.PkgByName[pk.Name] = pk
		}
	})
	for fn := range ssautil.AllFunctions(prog) {
		if fn.Pkg == nil && fn.Package() == nil {
			continue
		}
		p.AllFuncs[funcKey(fn)] = fn
	}
	return p, nil
}

// funcKey is the full, stable name of a function: "pkgpath.Name", "(*pkgpath.T).M", "(pkgpath.T).M", closures "...$1".
func funcKey(fn *ssa.Function) string {
	return fn.String()
}

func inModule(pkg *types.Package) bool {
	return pkg != nil && (pkg.Path() == modulePath || strings.HasPrefix(pkg.Path(), modulePath+"/"))
}

func (p *Program) freshName(base string) string {
	p.fresh++
	return fmt.Sprintf("%s!%d", sanitize(base), p.fresh)
}

func sanitize(s string) string {
	var b strings.Builder
	for _, r := range s {
		switch {
		case r >= 'a' && r <= 'z', r >= 'A' && r <= 'Z', r >= '0' && r <= '9', r == '_', r == '$', r == '.', r == '!':
			b.WriteRune(r)
		case r == '/':
			b.WriteRune('.')
		case r == '*':
			b.WriteString("ptr.")
		case r == '[':
			b.WriteString("$L")
		case r == ']':
			b.WriteString("$R")
		case r == ' ', r == '(', r == ')', r == ',', r == '{', r == '}', r == ';':
			b.WriteRune('_')
		default:
			fmt.Fprintf(&b, "$%x", r)
		}
	}
	return b.String()
}

func shortHash(s string) string {
	h := sha256.Sum256([]byte(s))
	return fmt.Sprintf("%x", h[:4])
}

// typeName returns a short mangled name for a Go type.
func typeName(t types.Type) string {
	s := types.TypeString(t, func(p *types.Package) string {
		path := p.Path()
		path = strings.TrimPrefix(path, "grog/internal/")
		return path
	})
	if len(s) > 60 {
		s = s[:40] + "$" + shortHash(s)
	}
	return sanitize(s)
}

// sortOf maps a Go type to its SMT sort.
func (p *Program) sortOf(t types.Type) Sort {
	if s, ok := p.sortCache[t]; ok {
		return s
	}
	s := p.sortOf1(t)
	p.sortCache[t] = s
	return s
}

func (p *Program) sortOf1(t types.Type) Sort {
	switch u := t.(type) {
	case *types.Alias:
		return p.sortOf(types.Unalias(t))
	case *types.Named:
		if st, ok := u.Underlying().(*types.Struct); ok {
			return p.structSort(u, st)
		}
		return p.sortOf(u.Underlying())
	case *types.Basic:
		switch {
		case u.Info()&types.IsBoolean != 0:
			return SBool
		case u.Info()&types.IsInteger != 0:
			return SInt
		case u.Info()&types.IsString != 0:
			return SString
		case u.Info()&types.IsFloat != 0, u.Info()&types.IsComplex != 0:
			return SFloat
		case u.Kind() == types.UnsafePointer:
			return SInt
		case u.Kind() == types.UntypedNil:
			return SInt
		}
		return SInt
	case *types.Pointer, *types.Map, *types.Chan, *types.Signature:
		return SInt
	case *types.Interface:
		return SIface
	case *types.TypeParam:
		return SIface
	case *types.Slice:
		es := p.sortOf(u.Elem())
		name := Sort("Sl$" + sortMangle(es))
		if _, ok := p.U.Datatypes[name]; !ok {
			p.U.AddDatatype(&Datatype{Name: name, Ctor: "mk$" + string(name), Fields: []BVar{
				{string(name) + "$arr", ArraySort(SInt, es)}, {string(name) + "$len", SInt}}})
		}
		return name
	case *types.Array:
		return ArraySort(SInt, p.sortOf(u.Elem()))
	case *types.Struct:
		return p.structSort(nil, u)
	case *types.Tuple:
		return Sort("Tuple")
	}
	return SInt
}

func sortMangle(s Sort) string {
	r := strings.NewReplacer("(", "L", ")", "R", " ", "_")
	return r.Replace(string(s))
}

func (p *Program) structSort(named *types.Named, st *types.Struct) Sort {
	var name Sort
	if named != nil {
		name = Sort("S$" + typeName(named))
		if named.TypeArgs().Len() > 0 {
			name = Sort("S$" + typeName(named) + "$" + shortHash(named.String()))
		}
		if named.Obj().Pkg() != nil && !inModule(named.Obj().Pkg()) {
			externalStructSorts[name] = true
		}
	} else {
		name = Sort("S$anon$" + shortHash(st.String()))
	}
	if _, ok := p.U.Datatypes[name]; ok {
		return name
	}
	// register a placeholder first to cut recursion (cannot actually recurse through values)
	d := &Datatype{Name: name, Ctor: "mk$" + string(name)}
	p.structInfo[name] = st
	if named != nil {
		p.sortCache[named] = name
	}
	if st.NumFields() == 0 {
		d.Fields = []BVar{{string(name) + "$$unit", SBool}}
	}
	for i := 0; i < st.NumFields(); i++ {
		f := st.Field(i)
		fname := f.Name()
		if fname == "_" {
			fname = fmt.Sprintf("_blank%d", i)
		}
		d.Fields = append(d.Fields, BVar{string(name) + "$" + fname, p.sortOf(f.Type())})
	}
	p.U.AddDatatype(d)
	return name
}

func (p *Program) fieldSel(structSort Sort, idx int) (string, Sort) {
	d := p.U.Datatypes[structSort]
	if d == nil {
		panic("fieldSel: not a datatype: " + string(structSort))
	}
	return d.Fields[idx].Name, d.Fields[idx].Sort
}

// zero value of a sort
func (p *Program) zeroOfSort(s Sort) *Term {
	switch s {
	case SBool:
		return False
	case SInt:
		return IntLit(0)
	case SString:
		return StrLit("")
	case SIface:
		return App("mkIface", SIface, IntLit(0), IntLit(0))
	}
	if _, v, ok := arrayParts(s); ok {
		return App("(as const "+string(s)+")", s, p.zeroOfSort(v))
	}
	if d, ok := p.U.Datatypes[s]; ok {
		var args []*Term
		for _, f := range d.Fields {
			args = append(args, p.zeroOfSort(f.Sort))
		}
		return App(d.Ctor, s, args...)
	}
	// opaque sort
	name := "zero$" + sortMangle(s)
	p.U.AddFun(&FunDecl{Name: name, Ret: s})
	return Const(name, s)
}

func (p *Program) zero(t types.Type) *Term { return p.zeroOfSort(p.sortOf(t)) }

func (p *Program) tagOf(t types.Type) int64 {
	key := types.TypeString(t, nil)
	if v, ok := p.typeTags[key]; ok {
		return v
	}
	// deterministic tag from the type string
	h := sha256.Sum256([]byte(key))
	v := int64(h[0])<<24 | int64(h[1])<<16 | int64(h[2])<<8 | int64(h[3])
	v = v%1000000 + 1000
	for {
		if _, used := p.tagTypes[v]; !used {
			break
		}
		v++
	}
	p.typeTags[key] = v
	p.tagTypes[v] = t
	return v
}

// boxing of non-pointer payloads into interface values
func (p *Program) boxFun(s Sort) (string, string) {
	b := "box$" + sortMangle(s)
	ub := "unbox$" + sortMangle(s)
	if _, ok := p.U.Funs[b]; !ok {
		p.U.AddFun(&FunDecl{Name: b, Params: []BVar{{"x", s}}, Ret: SInt})
		p.U.AddFun(&FunDecl{Name: ub, Params: []BVar{{"x", SInt}}, Ret: s})
		x := &Term{Kind: KApp, Op: "x", Sort: s}
		bx := SymApp(b, SInt, x)
		p.U.Axioms = append(p.U.Axioms, &Axiom{Name: "unbox_" + b, T: Forall([]BVar{{"x", s}}, Eq(SymApp(ub, s, bx), x), []*Term{bx})})
	}
	return b, ub
}

// lookupType resolves a textual Go type (as written in specs/contracts) relative to package pkg.
func (p *Program) lookupType(text string, pkg *types.Package) (types.Type, error) {
	text = strings.TrimSpace(text)
	switch text {
	case "int":
		return types.Typ[types.Int], nil
	case "int64":
		return types.Typ[types.Int64], nil
	case "bool":
		return types.Typ[types.Bool], nil
	case "string":
		return types.Typ[types.String], nil
	case "error":
		return types.Universe.Lookup("error").Type(), nil
	case "any":
		return types.Universe.Lookup("any").Type(), nil
	}
	if strings.HasPrefix(text, "[]") {
		e, err := p.lookupType(text[2:], pkg)
		if err != nil {
			return nil, err
		}
		return types.NewSlice(e), nil
	}
	if strings.HasPrefix(text, "*") {
		e, err := p.lookupType(text[1:], pkg)
		if err != nil {
			return nil, err
		}
		return types.NewPointer(e), nil
	}
	if strings.HasPrefix(text, "map[") {
		depth := 0
		for i := 3; i < len(text); i++ {
			if text[i] == '[' {
				depth++
			} else if text[i] == ']' {
				depth--
				if depth == 0 {
					k, err := p.lookupType(text[4:i], pkg)
					if err != nil {
						return nil, err
					}
					v, err := p.lookupType(text[i+1:], pkg)
					if err != nil {
						return nil, err
					}
					return types.NewMap(k, v), nil
				}
			}
		}
	}
	if i := strings.LastIndex(text, "."); i >= 0 {
		pn, tn := text[:i], text[i+1:]
		pk := p.PkgByName[pn]
		if pk == nil {
			pk = p.PkgByPath[pn]
		}
		if pk == nil || pk.Types == nil {
			return nil, fmt.Errorf("unknown package %q in type %q", pn, text)
		}
		obj := pk.Types.Scope().Lookup(tn)
		if obj == nil {
			return nil, fmt.Errorf("unknown type %q", text)
		}
		return obj.Type(), nil
	}
	if pkg != nil {
		if obj := pkg.Scope().Lookup(text); obj != nil {
			if _, ok := obj.(*types.TypeName); ok {
				return obj.Type(), nil
			}
		}
	}
	return nil, fmt.Errorf("unknown type %q", text)
}

// sortFromText resolves a textual type to a sort; also accepts declared spec sorts.
func (p *Program) sortFromText(text string, pkg *types.Package) (Sort, types.Type, error) {
	text = strings.TrimSpace(text)
	if p.Spec != nil {
		if p.Spec.Sorts[text] {
			return Sort(text), nil, nil
		}
	}
	if strings.HasPrefix(text, "set[") && strings.HasSuffix(text, "]") {
		ks, _, err := p.sortFromText(text[4:len(text)-1], pkg)
		if err != nil {
			return "", nil, err
		}
		return ArraySort(ks, SBool), nil, nil
	}
	if strings.HasPrefix(text, "amap[") && strings.HasSuffix(text, "]") {
		parts := splitTop(text[5 : len(text)-1])
		if len(parts) != 2 {
			return "", nil, fmt.Errorf("amap needs two type arguments: %q", text)
		}
		ks, _, err := p.sortFromText(parts[0], pkg)
		if err != nil {
			return "", nil, err
		}
		vs, _, err := p.sortFromText(parts[1], pkg)
		if err != nil {
			return "", nil, err
		}
		return ArraySort(ks, vs), nil, nil
	}
	if strings.HasPrefix(text, "arr[") && strings.HasSuffix(text, "]") {
		ks, _, err := p.sortFromText(text[4:len(text)-1], pkg)
		if err != nil {
			return "", nil, err
		}
		return ArraySort(SInt, ks), nil, nil
	}
	t, err := p.lookupType(text, pkg)
	if err != nil {
		return "", nil, err
	}
	return p.sortOf(t), t, nil
}

// source text and hash of a function, for the evidence.
func (p *Program) funcSource(fn *ssa.Function) (file string, line int, hash string) {
	syn := fn.Syntax()
	if syn == nil {
		return "", 0, ""
	}
	pos := p.Fset.Position(syn.Pos())
	end := p.Fset.Position(syn.End())
	data, ok := p.srcCache[pos.Filename]
	if !ok {
		data, _ = os.ReadFile(pos.Filename)
		p.srcCache[pos.Filename] = data
	}
	if end.Offset > len(data) || pos.Offset > end.Offset {
		return pos.Filename, pos.Line, ""
	}
	h := sha256.Sum256(data[pos.Offset:end.Offset])
	return pos.Filename, pos.Line, fmt.Sprintf("%x", h[:8])
}

// loopHeaders returns the loop-header blocks of fn ordered by source position of the loop statement.
func loopHeaders(fn *ssa.Function) []*ssa.BasicBlock {
	if len(fn.Blocks) == 0 {
		return nil
	}
	// back edge b->h where h dominates b
	hs := map[*ssa.BasicBlock]bool{}
	for _, b := range fn.Blocks {
		for _, s := range b.Succs {
			if s.Dominates(b) {
				hs[s] = true
			}
		}
	}
	var out []*ssa.BasicBlock
	for _, b := range fn.Blocks {
		if hs[b] {
			out = append(out, b)
		}
	}
	// order by the position of the loop statement (approximated by the smallest instruction position in the header),
	// fall back to block index
	pos := func(b *ssa.BasicBlock) token.Pos {
		best := token.NoPos
		for _, in := range b.Instrs {
			if p := in.Pos(); p.IsValid() && (best == token.NoPos || p < best) {
				best = p
			}
		}
		return best
	}
	sort.SliceStable(out, func(i, j int) bool {
		pi, pj := pos(out[i]), pos(out[j])
		if pi == token.NoPos || pj == token.NoPos || pi == pj {
			return out[i].Index < out[j].Index
		}
		return pi < pj
	})
	return out
}

// loopBlocks computes the natural loop of header h.
func loopBlocks(h *ssa.BasicBlock) map[*ssa.BasicBlock]bool {
	in := map[*ssa.BasicBlock]bool{h: true}
	var stack []*ssa.BasicBlock
	for _, p := range h.Preds {
		if h.Dominates(p) {
			if !in[p] {
				in[p] = true
				stack = append(stack, p)
			}
		}
	}
	for len(stack) > 0 {
		b := stack[len(stack)-1]
		stack = stack[:len(stack)-1]
		for _, p := range b.Preds {
			if !in[p] {
				in[p] = true
				stack = append(stack, p)
			}
		}
	}
	return in
}

var _ = ast.Inspect

// externalStructSorts: struct sorts of types declared outside the module (their heaps are outside every frame claim).
var externalStructSorts = map[Sort]bool{}

func isExternalHeap(name string) bool {
	if !strings.HasPrefix(name, "H$") {
		return false
	}
	rest := name[2:]
	for s := range externalStructSorts {
		if strings.HasPrefix(rest, string(s)+"$") {
			return true
		}
	}
	return false
}
