#!/bin/bash
# Must-fail corpus: each mutant is a patch for /repo plus the obligation(s) that have to fail by name.
# A scratch worktree of /repo (HEAD + working tree contract files) is created under $TMPDIR and removed afterwards.
set -u
HERE="$(cd "$(dirname "$0")/.." && pwd)"
PAT="${1:-}"
TMP="$(mktemp -d "${TMPDIR:-/tmp}/govc-selftest.XXXXXX")"
trap 'git -C /repo worktree remove --force "$TMP/wt" >/dev/null 2>&1; rm -rf "$TMP"' EXIT
git -C /repo worktree add --detach "$TMP/wt" HEAD >/dev/null 2>&1 || { echo "cannot create worktree"; exit 2; }
fail=0; n=0
for meta in "$HERE"/selftest/mutants/*.expect; do
  name="$(basename "$meta" .expect)"
  if [ -n "$PAT" ] && ! echo "$name" | grep -q "$PAT"; then continue; fi
  patch="$HERE/selftest/mutants/$name.patch"
  prop="$(sed -n 's/^property: *//p' "$meta")"
  n=$((n+1))
  git -C "$TMP/wt" checkout -q -- . && git -C "$TMP/wt" clean -fdq
  if ! git -C "$TMP/wt" apply "$patch" 2>"$TMP/apply.err"; then echo "SELFTEST $name: patch does not apply: $(cat $TMP/apply.err)"; fail=1; continue; fi
  out="$(cd "$HERE" && bin/govc check --repo "$TMP/wt" --verif "$HERE" --prop "$prop" --tier quick --no-evidence --replay-dir "$TMP/replay" 2>&1)"
  ok=1
  while read -r ob; do
    [ -z "$ob" ] && continue
    case "$ob" in
      bounded:*) if ! echo "$out" | grep -F "VIOLATION property=$prop" | grep -qF "bounded stand-in ${ob#bounded:} failed"; then ok=0; echo "SELFTEST $name: expected bounded stand-in ${ob#bounded:} to fail"; fi;;
      *) if ! echo "$out" | grep -F "VIOLATION property=$prop" | grep -qF "obligation=$ob "; then ok=0; echo "SELFTEST $name: expected obligation $ob to fail"; fi;;
    esac
  done < <(sed -n 's/^obligation: *//p' "$meta")
  if [ $ok = 1 ]; then echo "SELFTEST $name: ok (detected)"; else fail=1; echo "$out" | tail -5; fi
done
echo "selftest: $n mutants, fail=$fail"
exit $fail
