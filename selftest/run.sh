#!/bin/bash
# Must-fail corpus: each mutant is a patch for /repo plus the obligation(s) that have to fail by name.
# A scratch worktree of /repo (HEAD + working tree contract files) is created under $TMPDIR and removed afterwards.
set -u
HERE="$(cd "$(dirname "$0")/.." && pwd)"
PAT="${1:-}"
TMP="$(mktemp -d "${TMPDIR:-/tmp}/govc-selftest.XXXXXX")"
trap 'git -C /repo worktree remove --force "$TMP/wt" >/dev/null 2>&1; rm -rf "$TMP"' EXIT
git -C /repo worktree add --detach "$TMP/wt" HEAD >/dev/null 2>&1 || { echo "cannot create worktree"; exit 2; }
fail=0; n=0
for meta in "$HERE"/selftest/mutants/*.expect; do
  name="$(basename "$meta" .expect)"
  if [ -n "$PAT" ] && ! echo "$name" | grep -q "$PAT"; then continue; fi
  patch="$HERE/selftest/mutants/$name.patch"
  prop="$(sed -n 's/^property: *//p' "$meta")"
  n=$((n+1))
  git -C "$TMP/wt" checkout -q -- . && git -C "$TMP/wt" clean -fdq
  if ! git -C "$TMP/wt" apply "$patch" 2>"$TMP/apply.err"; then echo "SELFTEST $name: patch does not apply: $(cat $TMP/apply.err)"; fail=1; continue; fi
  out="$(cd "$HERE" && bin/govc check --repo "$TMP/wt" --verif "$HERE" --prop "$prop" --tier quick --no-evidence --replay-dir "$TMP/replay" 2>&1)"
  ok=1
  while read -r ob; do
    [ -z "$ob" ] && continue
    case "$ob" in
      bounded:*) if ! echo "$out" | grep -F "VIOLATION property=$prop" | grep -qF "bounded stand-in ${ob#bounded:} failed"; then ok=0; echo "SELFTEST $name: expected bounded stand-in ${ob#bounded:} to fail"; fi;;
      *) if ! echo "$out" | grep -F "VIOLATION property=$prop" | grep -qF "obligation=$ob "; then ok=0; echo "SELFTEST $name: expected obligation $ob to fail"; fi;;
    esac
  done < <(sed -n 's/^obligation: *//p' "$meta")
  if [ $ok = 1 ]; then echo "SELFTEST $name: ok (detected)"; else fail=1; echo "$out" | tail -5; fi
done
# Must-pass corpus: property-preserving edits (renamed locals, reordered independent statements, extra logging, changed
# message texts) that no check may flag.
nb=0
for meta in "$HERE"/selftest/benign/*.expect; do
  name="$(basename "$meta" .expect)"
  if [ -n "$PAT" ] && ! echo "benign_$name" | grep -q "$PAT"; then continue; fi
  nb=$((nb+1))
  git -C "$TMP/wt" checkout -q -- . && git -C "$TMP/wt" clean -fdq
  if ! git -C "$TMP/wt" apply "$HERE/selftest/benign/$name.patch" 2>"$TMP/apply.err"; then echo "SELFTEST benign_$name: patch does not apply: $(cat $TMP/apply.err)"; fail=1; continue; fi
  if ! ( cd "$TMP/wt" && PATH=/opt/veriftools/go1.26.8/bin:$PATH GOTOOLCHAIN=local GOFLAGS=-mod=mod GOPROXY=off GOSUMDB=off go build ./... ) >"$TMP/build.err" 2>&1; then echo "SELFTEST benign_$name: does not build: $(head -3 $TMP/build.err)"; fail=1; continue; fi
  ok=1
  for prop in $(sed -n 's/^property: *//p' "$meta"); do
    out="$(cd "$HERE" && bin/govc check --repo "$TMP/wt" --verif "$HERE" --prop "$prop" --tier quick --no-evidence --replay-dir "$TMP/replay" 2>&1)"; rc=$?
    if [ $rc != 0 ] || echo "$out" | grep -q "VIOLATION"; then ok=0; echo "SELFTEST benign_$name: $prop raised an alarm on a property-preserving edit"; echo "$out" | grep "VIOLATION\|^note" | cut -c1-300 | head -5; fi
  done
  if [ $ok = 1 ]; then echo "SELFTEST benign_$name: ok (no alarm)"; else fail=1; fi
done
# every local variable of every function under /repo/internal renamed at once (mechanically, by `govc rename-locals`):
# the contracts name locals, so this is the hardest property-preserving edit for them; no check may flag it
if [ -z "$PAT" ] || echo "benign_all_locals_renamed" | grep -q "$PAT"; then
  nb=$((nb+1))
  git -C "$TMP/wt" checkout -q -- . && git -C "$TMP/wt" clean -fdq
  ( cd "$HERE" && bin/govc rename-locals --repo "$TMP/wt" ) >"$TMP/rn.out" 2>&1 || { echo "SELFTEST benign_all_locals_renamed: rename tool failed: $(tail -2 $TMP/rn.out)"; fail=1; }
  if ! ( cd "$TMP/wt" && PATH=/opt/veriftools/go1.26.8/bin:$PATH GOTOOLCHAIN=local GOFLAGS=-mod=mod GOPROXY=off GOSUMDB=off go build ./... ) >"$TMP/build.err" 2>&1; then echo "SELFTEST benign_all_locals_renamed: does not build: $(head -3 $TMP/build.err)"; fail=1; fi
  ok=1
  for prop in $(python3 -c "import json;print(' '.join(c['property_id'] for c in json.load(open('$HERE/MANIFEST.json'))['checks']))"); do
    out="$(cd "$HERE" && bin/govc check --repo "$TMP/wt" --verif "$HERE" --prop "$prop" --tier quick --no-evidence --replay-dir "$TMP/replay" 2>&1)"; rc=$?
    if [ $rc != 0 ] || echo "$out" | grep -q "VIOLATION"; then ok=0; echo "SELFTEST benign_all_locals_renamed: $prop raised an alarm"; echo "$out" | grep "VIOLATION\|out of reach" | cut -c1-300 | head -5; fi
  done
  if [ $ok = 1 ]; then echo "SELFTEST benign_all_locals_renamed: ok (no alarm on $(cat $TMP/rn.out))"; else fail=1; fi
fi
echo "selftest: $n mutants, $nb benign edits, fail=$fail"
exit $fail
