#!/bin/sh
# Build the engine offline from vendored sources.
set -e
cd "$(dirname "$0")/engine"
export PATH=/opt/veriftools/go1.26.8/bin:$PATH GOTOOLCHAIN=local GOFLAGS=-mod=vendor GOPROXY=off GOSUMDB=off
go build -o ../bin/govc .
